#!/bin/bash
# tools/seed_matrix.sh : apply every stored seeded change in turn to a scratch worktree of /repo HEAD, run the
# quick check of its property against that worktree, undo it. Writes /verif/seeded/MATRIX.md (which check
# reports which change). /repo itself is never touched (VERIF_REPO, separate target dir).
# Optional arguments: <part-name> <seed-name regex> - run only the matching seeds with scratch directories of their
# own (/tmp/matrix_wt_<part> ...) and write seeded/MATRIX.<part>.part; `tools/seed_matrix.sh merge` joins the parts
# into MATRIX.md. Two or three parts can run next to each other.
cd /verif || exit 2
if [ "$1" = merge ]; then
  { echo "| seed | property | applies | check exit | rules reported |"; echo "|---|---|---|---|---|"; cat seeded/MATRIX.*.part | grep -v '^| seed \|^|---' | sort; } > seeded/MATRIX.md
  rm -f seeded/MATRIX.*.part; wc -l seeded/MATRIX.md; exit 0
fi
part=$1; filter=${2:-.}
wt=/tmp/matrix_wt${part:+_$part}
export CARGO_NET_OFFLINE=true
if [ ! -d $wt ]; then git -C /repo worktree add -q --detach $wt HEAD || exit 2; fi
( cd $wt && git checkout -q --detach "$(git -C /repo rev-parse HEAD)" && git reset -q --hard && git clean -qfd ) || exit 2
tg=/tmp/matrix_target${part:+_$part}
export VERIF_REPO=$wt CARGO_TARGET_DIR=$tg IASTMC_BIN=$tg/debug/iastmc VERIF_EVIDENCE_DIR=/tmp/matrix_evidence${part:+_$part} VERIF_REPLAY_DIR=/tmp/matrix_replays${part:+_$part}
out=/verif/seeded/MATRIX.md
[ -n "$part" ] && out=/verif/seeded/MATRIX.$part.part
echo "| seed | property | applies | check exit | rules reported |" > $out
echo "|---|---|---|---|---|" >> $out
for d in seeded/*/; do
  name=$(basename $d)
  echo "$name" | grep -Eq "$filter" || continue
  prop=$(python3 -c "import json;print(json.load(open('$d/meta.json'))['property'])")
  if git -C $wt apply --check /verif/$d/patch.diff 2>/dev/null; then
    git -C $wt apply /verif/$d/patch.diff
    res=$(./check $prop --tier quick 2>&1); rc=$?
    rules=$(echo "$res" | grep -E "^  rule=" | sed 's/^  rule=\([^ ]*\) sig=.*/\1/' | sort | uniq -c | sort -rn | head -3 | awk '{printf "%s x%s; ", $2, $1}')
    ( cd $wt && git reset -q --hard && git clean -qfd )
    echo "| $name | $prop | yes | $rc | $rules |" >> $out
  else
    echo "| $name | $prop | NO (conflicts with a later fix) | - | - |" >> $out
  fi
  tail -1 $out
done
