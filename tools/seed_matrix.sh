#!/bin/bash
# tools/seed_matrix.sh : apply every stored seeded change to /repo in turn, run the quick check of its property,
# undo it. Writes /verif/seeded/MATRIX.md (which check reports which change). /repo must be clean.
cd /verif || exit 2
git -C /repo diff --quiet || { echo "/repo is dirty"; exit 2; }
out=/verif/seeded/MATRIX.md
echo "| seed | property | applies | check exit | rules reported |" > $out
echo "|---|---|---|---|---|" >> $out
for d in seeded/*/; do
  name=$(basename $d)
  prop=$(python3 -c "import json;print(json.load(open('$d/meta.json'))['property'])")
  if git -C /repo apply --check /verif/$d/patch.diff 2>/dev/null; then
    git -C /repo apply /verif/$d/patch.diff
    res=$(./check $prop --tier quick 2>&1); rc=$?
    rules=$(echo "$res" | grep -E "^  rule=" | sed 's/^  rule=\([^ ]*\) sig=.*/\1/' | sort | uniq -c | sort -rn | head -3 | awk '{printf "%s x%s; ", $2, $1}')
    git -C /repo checkout -- .
    echo "| $name | $prop | yes | $rc | $rules |" >> $out
  else
    echo "| $name | $prop | NO (conflicts with a later fix) | - | - |" >> $out
  fi
  tail -1 $out
done
rm -rf /verif/replays
