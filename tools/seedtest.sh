#!/bin/bash
# tools/seedtest.sh <patch.diff> <Cxx> [<Cyy> ...] : apply a seeded change to /repo, run the quick checks, undo it.
patch=$1; shift
cd /repo || exit 2
git diff --quiet || { echo "/repo is dirty"; exit 2; }
git apply "$patch" || { echo "patch does not apply"; exit 2; }
cd /verif
for p in "$@"; do
  out=$(./check $p --tier quick 2>&1)
  rc=$?
  echo "== $p exit=$rc $(echo "$out" | grep -c '^VIOLATION') violation line(s)"
  echo "$out" | grep -E "^  rule=" | sort | uniq -c | sort -rn | head -4
  echo "$out" | grep -E "^MACHINERY" | head -3
done
git -C /repo checkout -- . 
