#!/bin/bash
# tools/seedtest.sh <patch.diff> <Cxx> [<Cyy> ...] : run the quick checks against a scratch worktree of /repo
# HEAD with a seeded change applied (VERIF_REPO + separate target dir: /repo itself is never touched, so
# this can run next to other checks). Scratch: /tmp/seed_wt, /tmp/seed_target (remove when done).
patch=$1; shift
wt=/tmp/seed_wt
export CARGO_NET_OFFLINE=true
if [ ! -d $wt ]; then git -C /repo worktree add -q --detach $wt HEAD || exit 2; fi
( cd $wt && git checkout -q --detach "$(git -C /repo rev-parse HEAD)" && git reset -q --hard && git clean -qfd ) || exit 2
( cd $wt && git apply "$patch" ) || { echo "patch does not apply"; exit 2; }
export VERIF_REPO=$wt CARGO_TARGET_DIR=/tmp/seed_target IASTMC_BIN=/tmp/seed_target/debug/iastmc
cd /verif
export VERIF_EVIDENCE_DIR=/tmp/seed_evidence VERIF_REPLAY_DIR=/tmp/seed_replays
for p in "$@"; do
  out=$(./check $p --tier quick 2>&1)
  rc=$?
  echo "== $p exit=$rc $(echo "$out" | grep -c '^VIOLATION') violation line(s)"
  echo "$out" | grep -E "^  rule=" | sort | uniq -c | sort -rn | head -4
  echo "$out" | grep -E "^MACHINERY" | head -3
done
( cd $wt && git reset -q --hard )
