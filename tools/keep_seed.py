#!/usr/bin/env python3
# tools/keep_seed.py <srcdir> <seed-name> <property> "<detected by>" "<notes>" : store a confirmed seeded change under /verif/seeded/<seed-name>/
import sys, os, json, shutil, subprocess
src, name, prop, detected, notes = sys.argv[1:6]
dst = f'/verif/seeded/{name}'
os.makedirs(dst, exist_ok=True)
for f in ('patch.diff', 'demo.diff', 'demo.js', 'patch_original.diff'):
    if os.path.exists(os.path.join(src, f)): shutil.copy(os.path.join(src, f), dst)
meta = json.load(open(os.path.join(src, 'meta.json')))
meta['property'] = prop
meta['confirmed'] = {
  'by': 'tools/confirm_seed.sh in scratch worktree /tmp/confirm_wt of /repo HEAD ' + subprocess.run(['git','-C','/repo','rev-parse','--short','HEAD'],capture_output=True,text=True).stdout.strip(),
  'what': 'patch applies; with it `cargo test --workspace --no-fail-fast --offline` = 98 passed 0 failed; demo fails with the change and passes without it',
}
meta['detected_by'] = detected
meta['notes'] = notes
json.dump(meta, open(os.path.join(dst, 'meta.json'), 'w'), indent=1)
print('kept', dst)
