#!/usr/bin/env python3
# Regenerates /verif/MANIFEST.json from the table below (kept in one place so it is always valid).
import json, os, subprocess
ROOT = os.path.dirname(os.path.dirname(os.path.abspath(__file__)))
CHECKS = {}
exec(open(os.path.join(ROOT, 'tools', 'manifest_table.py')).read())
props = [json.loads(l)['id'] for l in open(os.path.join(ROOT, 'properties.jsonl'))]
checks = []
na = []
for pid in props:
    if pid in CHECKS and os.path.exists(os.path.join(ROOT, 'mc', 'drivers', pid + '.js')):
        c = CHECKS[pid]
        checks.append({
            'property_id': pid,
            'quick_cmd': f'./check {pid} --tier quick',
            'thorough_cmd': f'./check {pid} --tier thorough',
            'evidence_file': f'/verif/evidence/{pid}.json',
            'replay_cmd_template': f'./check {pid} --replay {{path}}',
            'engine': 'iastmc+mc',
            'level_claimed': {'category': 'model_checking', 'text': c['text'], 'design_ref': c.get('design_ref', 'DESIGN.md §4 ' + pid)},
            'level_note': c['note'],
            'technique': c['technique'],
        })
    else:
        na.append({'property_id': pid, 'reason': NOT_YET.get(pid, 'check not built yet in this round; see DESIGN.md §4 ' + pid + ' for the planned bounded-exhaustive exploration')})
hooks_commits = subprocess.run(['git', '-C', '/repo', 'log', '--format=%H', '--grep=^verif hooks'], capture_output=True, text=True).stdout.split()
m = {
    'version': 1,
    'setup_cmd': 'cd /verif/harness && CARGO_NET_OFFLINE=true cargo build --offline',
    'hooks': {
        'guard': 'cfg(dd_iast_rewriter_verif)',
        'enable': 'emitted by /verif/harness/build.rs (cargo:rustc-cfg=dd_iast_rewriter_verif) for the harness crate, which compiles /repo/src/*.rs of the current working tree via #[path]; no RUSTFLAGS needed',
        'baseline_off_cmd': 'cd /repo && cargo test --workspace --no-fail-fast --offline',
        'source_commits': hooks_commits,
        'add_only': True,
    },
    'engines': [
        {'name': 'iastmc', 'path': '/verif/harness', 'serves_properties': props, 'kind_free_text': 'native JSONL service around the real rewriter sources (rewrite/print/config/metrics, in-memory FileReader with fault answers, swc AST dumps, catch_unwind + watchdog)'},
        {'name': 'mc', 'path': '/verif/mc', 'serves_properties': props, 'kind_free_text': 'Node explorer: bounded-exhaustive derivation-tree / history enumeration (deviation bound k, depth d, history length h), 16 worker processes, property oracles (V8 differential execution, annotated erasure, independent VLQ codec, ...)'},
    ],
    'checks': checks,
    'not_applicable': na,
    'notes': 'All checks: exit 0 held / 1 VIOLATION / 2 machinery failure. Known findings in /verif/known-findings.json. VERIF_SEED only permutes dispatch order and quoted samples.',
}
json.dump(m, open(os.path.join(ROOT, 'MANIFEST.json'), 'w'), indent=1)
print('checks:', [c['property_id'] for c in checks], 'not_applicable:', [n['property_id'] for n in na])
