NOT_YET = {}
CHECKS = {
 'C13': {
  'technique': 'bounded-exhaustive input/fault enumeration executed on the real rewriter (explicit-state search over token strings, single-token mutants, file-name x map-reference x reader-answer products, config lattice, multi-byte offsets)',
  'text': 'Every leaf of five finite families (all token strings up to length L over the rewriter\'s trigger tokens, every single-token mutant/prefix of 40 seed programs, the full product of file names x sourceMappingURL kinds x reader answers x settings, the option-presence lattice plus malformed configs, every byte offset of a multi-byte character in leading text) is executed against the real code under catch_unwind with a watchdog; a panic, abort or timeout anywhere is a violation. Exhaustive within the stated alphabets and bounds, so it reaches the unwrap/index paths the suite never feeds.',
  'note': 'native (not wasm) build with release semantics; serde_json stands in for serde-wasm-bindgen; the 12-line body of Rewriter::rewrite is mirrored by the cfg hook; deep-nesting exhaustion is out of scope per the property',
 },
}
