NOT_YET = {}
_NATIVE = 'native (not wasm) build of the working tree with release semantics; serde_json stands in for serde-wasm-bindgen; the 12-line body of Rewriter::rewrite is mirrored by the cfg hook'
CHECKS = {
 'C01': {
  'technique': 'bounded-exhaustive exploration of the program space (grammar derivations, deviation bound k, nesting depth 2) executed on the real rewriter; differential execution in V8 against the input program as reference model, for every environment of a finite value domain',
  'text': 'Every program derivable from grammar G within the bound (every operation schema x every operand atom in every slot; every statement context x expression context x representative operation with up to k deviations in scope kind / configuration; every schema nested in every operand slot; async and generator contexts) is rewritten by the real code and both input and output are run in fresh V8 contexts for every environment (strings, numbers, null/undefined, logging Proxy objects, mutating or throwing callees). Observations (returned/thrown value and the full log of external effects) must be equal, up to the exemptions the property states. The suite pins ~90 output strings; this explores ~4*10^4 programs x ~14 environments in the quick tier.',
  'note': _NATIVE + '; run-time values limited to the domain G7; V8 of Node 20 is the reference semantics',
 },
 'C02': {
  'technique': 'bounded-exhaustive exploration of the program space + corpus of real library files; annotated erasure of AST(content) compared node-by-node with AST(input), with linearity and evaluation-order checks on every temporary',
  'text': 'For every leaf of families A,B,C,G, 40 seed programs x 3 configs and the corpus of real library files x 3 configs, the instrumentation is erased from the output AST exactly as the property describes and the result must equal the input AST; every temporary must be assigned once, used for exactly one evaluation, in evaluation order; guards must guard the base of their own chain; nothing reserved may survive erasure.',
  'note': _NATIVE + '; ASTs come from the rewriter\'s own parser; comparison ignores parentheses, spans and literal spelling only',
 },
 'C03': {
  'technique': 'bounded-exhaustive exploration (every operand atom in every slot of every schema, depth-2 nesting, plus-disabled configurations); static mirror check of every hook call site + execution with recording hooks that recompute the operation from the operands',
  'text': 'For every hook call site of every explored output the operand list must mirror the operands used inside the first argument (same temporaries / identifiers / literals, same order, spreads from one fresh copy), and at run time, in every environment, recomputing the operation from the operands the hook was handed must give the value it was handed.',
  'note': _NATIVE + '; template hooks are checked dynamically by in-order containment only (quasis are invisible to a hook), statically exactly',
 },
 'C04': {
  'technique': 'bounded-exhaustive enumeration of placements (statement ctx x expression ctx x operation x scope x config, k deviations) with a requirement function must() written from the property text, evaluated in lock-step with the annotated erasure',
  'text': 'Every input node for which the property demands instrumentation (REQUIRED by must()) must be wrapped by the configured hook in the output; documented exclusions are DONTCARE. Covers every statement kind and expression position of the grammar for each kind of operation, which is what exposed the skipped `if` heads / un-braced else branches.',
  'note': _NATIVE + '; DONTCARE for documented exclusions and for non-arrow parameter defaults',
 },
 'C13': {
  'technique': 'bounded-exhaustive input/fault enumeration executed on the real rewriter (explicit-state search over token strings, single-token mutants, file-name x map-reference x reader-answer products, config lattice, multi-byte offsets)',
  'text': 'Every leaf of five finite families (all token strings up to length L over the rewriter\'s trigger tokens, every single-token mutant/prefix of 40 seed programs, the full product of file names x sourceMappingURL kinds x reader answers x settings, the option-presence lattice plus malformed configs, every byte offset of a multi-byte character in leading text) is executed against the real code under catch_unwind with a watchdog; a panic, abort or timeout anywhere is a violation.',
  'note': _NATIVE + '; deep-nesting exhaustion is out of scope per the property',
 },
 'C15': {
  'technique': 'bounded-exhaustive enumeration of statement orders (all ordered selections of L statements from a 14-statement alphabet x verbosity x file) + families A,C; metrics compared with hook call sites counted by the annotated erasure',
  'text': 'For every ordering of instrumented and inspected-but-not-instrumented statements, under every verbosity, the reported count must equal the number of hook call sites in the output AST and the debug breakdown must partition it by the tag of the input operation under each hook.',
  'note': _NATIVE + '; metrics shaping reached through the cfg hook',
 },
 'C16': {
  'technique': 'explicit-state search over call histories: all sequences up to length h over a 20-symbol call alphabet, each executed in its own fresh process, invariant checked after every call against a fresh-process reference',
  'text': 'Every history (modified / not-modified / syntax-error / cancelled / chained / two-comment / literal-heavy / multi-block inputs on two same-config rewriter instances and one default-prefix instance) up to length h, plus every call repeated 25x, runs in its own process; each call must return exactly what a single call in a fresh process returns (content, metrics, literal set, error text).',
  'note': _NATIVE + '; a native process stands in for the wasm instance',
 },
 'C05': {
  'technique': 'explicit enumeration of the configuration lattice (present/absent/renamed per entry), of option-presence patterns x verbosity spellings, and breadth-first search over event orders {load A, load B, tracer installs hooks, call A, call B}; closed-world and iff oracles on the annotated erasure, execution of every event order in V8',
  'text': 'Every subset of 9 configuration entries (with renamings and variants) is applied to a side-by-side program holding every operation kind in four placements: the set of _ddiast.<name> names must be a subset of the configured replacement names, every hook must sit on an enabled operation with the configured name, enabled operations must be instrumented, an empty list must give not-modified, and the prologue must define every configured name. Option defaults are read back through the cfg hook for all 2^6 presence patterns. Every order of load/install/call events up to length 5 is executed: no ReferenceError/TypeError before the tracer installs, an existing hook object is never replaced, installed hooks are reached.',
  'note': _NATIVE + '; duplicate src entries: only the closed-world rule is judged',
 },
 'C06': {
  'technique': 'bounded-exhaustive exploration (families A,B,C,G,M) with a static scope/liveness analysis of every injected temporary, plus executed re-entrancy histories (recursion, generators, async interleavings, closures, hook re-entry) and exhaustive placement of reserved-prefix identifiers',
  'text': 'Every occurrence of a reserved-prefix identifier in every explored output must resolve to an injected let of an enclosing block without crossing a function / parameter / class-field boundary, be assigned in its own sequence and not be reassigned by a nested expression while live; 39 re-entrancy shapes are executed differentially (with identity hooks and with hooks that re-enter the function); 43 placements x 8 spellings of a reserved-prefix identifier must be refused or behave identically.',
  'note': _NATIVE + '; two open known findings (temporaries of non-arrow parameter defaults and of instance field initialisers are shared across activations)',
 },
 'C07': {
  'technique': 'full-product enumeration of directive sequences (length <= 3 over 4 spellings) x look-alikes x 14 scope kinds x instrumentation kinds; directive lists of raw ASTs compared scope by scope, strictness probes executed in V8',
  'text': 'For every directive prologue shape in the program and in every kind of function body, with and without injected declarations, the leading directive list of every scope in AST(content) must equal that of AST(input), and strictness probes (this-binding, assignment to an undeclared name) must answer the same on both sides.',
  'note': _NATIVE,
 },
 'C08': {
  'technique': 'bounded-exhaustive exploration (families A,B,C,G,M + ~130 grammar-sensitive contexts x operations x comments) and a corpus of real library files; content re-parsed by the repo parser and compiled (not run) by V8 in the kind of the input',
  'text': 'For every explored program and corpus file that V8 accepts, the content must be accepted by the rewriter\'s own parser with the same script/module kind and by V8 (module: SourceTextModule; otherwise CommonJS function wrapper), and end with exactly one decodable version-3 source map trailer.',
  'note': _NATIVE + '; V8 of Node 20 defines "Node itself can parse"',
 },
 'C12': {
  'technique': 'bounded-exhaustive exploration (families A,B,C,M + 17 not-modified bodies x 9 byte-level variants x 5 configs) through the native call and through the real main.js wrappers; status vs hook count from the annotated erasure',
  'text': 'For every leaf: notmodified => empty raw content and main.js hands back the caller\'s text byte for byte (NonCacheRewriter and CacheRewriter); modified => at least one hook call site, the prologue and a decodable trailer; an input holding a REQUIRED operation is never reported not-modified; an empty method list is always not-modified.',
  'note': _NATIVE + '; main.js is the real file, the wasm class it loads is a stand-in answered by the native service',
 },
 'C09': {
  'technique': 'bounded-exhaustive exploration (families A,B,C,M as written + representative programs x 8 layout transforms x 6 file names x comments, + files carrying sourceMappingURL comments); independent VLQ decoder and greatest-lower-bound lookup over the decoded trailer',
  'text': 'For every explored output: the trailer is a version-3 map whose sources is exactly the input base name; every segment lies inside the input text; every variable reference/binding copied from the input (paired with its input node by the lock-step walk) has a segment of its own pointing at its exact original line and column; every segment on a code token inside a statement maps into the input line span of that statement, every statement and injected let starts with a mapping of its own, injected lets map into their block.',
  'note': _NATIVE + '; columns are UTF-16 units, no astral characters; property names (non-references) are judged by the line-span rule only',
 },
 'C10': {
  'technique': 'explicit enumeration of reference kinds x reader answers x original-map shapes x chain x comments x look-alike text (k deviations), three real calls per leaf; independent two-step composition compared entry by entry with the decoded trailer',
  'text': 'With chaining on and a usable original map (inline, charset data URL, relative, ./, ../, absolute, block comment form, last of two comments) every entry of the trailer equals rewrite-map-then-original-map (global greatest-lower-bound, sourceRoot resolved, names) and the reader was asked for exactly the resolved path; otherwise the trailer equals the plain rewrite map; the content ends with exactly one trailer and, minus trailer and removed comment, equals the content of the same program without the reference, so look-alike strings, templates, regexes and comments are intact.',
  'note': _NATIVE + '; in-memory FileReader with the trait-default parent(); synthetic original maps',
 },
 'C11': {
  'technique': 'breadth-first search over histories of rewrite events on the real CacheRewriter (fresh module instances per history) + exhaustive single-file and on-disk families; real V8 call sites on both prepareStackTrace paths',
  'text': 'After every event of every history (rewrite A v1 / A v2 / B / A not modified / A syntax error / A chained, length <= h) every generator-known throw site of every loaded file is thrown: frames inside a rewritten file must report the original path and a known original line (chained: the .ts path and line), frames of other files must be byte-identical to V8\'s rendering, eval origins are translated on the string path, nothing throws; getOriginalPathAndLineFromSourceMap is driven over 11 kinds of on-disk files x 8 argument shapes.',
  'note': 'real main.js / js/source-map / js/stack-trace of the working tree; lru-cache and the wasm class are stand-ins (bridge.js) answering from the native service; only lines are judged, not columns',
 },
 'C14': {
  'technique': 'explicit enumeration of literal placements x byte lengths around both bounds (ASCII, 2- and 3-byte characters) x layout x multiplicity x modified/unmodified x literals option; generator-known table compared as a set with the report',
  'text': 'The generator assembles every program and knows each literal\'s offset, value, byte length, exclusion and initialised name; the reported (value, line, column, ident) set must equal the table exactly, every location once, equal values grouped, the input text at each position must hold the literal, nothing is reported when disabled, and the report under the full configuration must equal the report with nothing enabled.',
  'note': _NATIVE + '; columns in code points, no astral characters',
 },
}
