NOT_YET = {}
_NATIVE = 'native (not wasm) build of the working tree with release semantics; serde_json stands in for serde-wasm-bindgen; the 12-line body of Rewriter::rewrite is mirrored by the cfg hook'
CHECKS = {
 'C01': {
  'technique': 'bounded-exhaustive exploration of the program space (grammar derivations, deviation bound k, nesting depth 2) executed on the real rewriter; differential execution in V8 against the input program as reference model, for every environment of a finite value domain',
  'text': 'Every program derivable from grammar G within the bound (every operation schema x every operand atom in every slot; every statement context x expression context x representative operation with up to k deviations in scope kind / configuration; every schema nested in every operand slot; async and generator contexts) is rewritten by the real code and both input and output are run in fresh V8 contexts for every environment (strings, numbers, null/undefined, logging Proxy objects, mutating or throwing callees). Observations (returned/thrown value and the full log of external effects) must be equal, up to the exemptions the property states. The suite pins ~90 output strings; this explores ~4*10^4 programs x ~14 environments in the quick tier.',
  'note': _NATIVE + '; run-time values limited to the domain G7; V8 of Node 20 is the reference semantics',
 },
 'C02': {
  'technique': 'bounded-exhaustive exploration of the program space + corpus of real library files; annotated erasure of AST(content) compared node-by-node with AST(input), with linearity and evaluation-order checks on every temporary',
  'text': 'For every leaf of families A,B,C,G, 40 seed programs x 3 configs and the corpus of real library files x 3 configs, the instrumentation is erased from the output AST exactly as the property describes and the result must equal the input AST; every temporary must be assigned once, used for exactly one evaluation, in evaluation order; guards must guard the base of their own chain; nothing reserved may survive erasure.',
  'note': _NATIVE + '; ASTs come from the rewriter\'s own parser; comparison ignores parentheses, spans and literal spelling only',
 },
 'C03': {
  'technique': 'bounded-exhaustive exploration (every operand atom in every slot of every schema, depth-2 nesting, plus-disabled configurations); static mirror check of every hook call site + execution with recording hooks that recompute the operation from the operands',
  'text': 'For every hook call site of every explored output the operand list must mirror the operands used inside the first argument (same temporaries / identifiers / literals, same order, spreads from one fresh copy), and at run time, in every environment, recomputing the operation from the operands the hook was handed must give the value it was handed.',
  'note': _NATIVE + '; template hooks are checked dynamically by in-order containment only (quasis are invisible to a hook), statically exactly',
 },
 'C04': {
  'technique': 'bounded-exhaustive enumeration of placements (statement ctx x expression ctx x operation x scope x config, k deviations) with a requirement function must() written from the property text, evaluated in lock-step with the annotated erasure',
  'text': 'Every input node for which the property demands instrumentation (REQUIRED by must()) must be wrapped by the configured hook in the output; documented exclusions are DONTCARE. Covers every statement kind and expression position of the grammar for each kind of operation, which is what exposed the skipped `if` heads / un-braced else branches.',
  'note': _NATIVE + '; DONTCARE for documented exclusions and for non-arrow parameter defaults',
 },
 'C13': {
  'technique': 'bounded-exhaustive input/fault enumeration executed on the real rewriter (explicit-state search over token strings, single-token mutants, file-name x map-reference x reader-answer products, config lattice, multi-byte offsets)',
  'text': 'Every leaf of five finite families (all token strings up to length L over the rewriter\'s trigger tokens, every single-token mutant/prefix of 40 seed programs, the full product of file names x sourceMappingURL kinds x reader answers x settings, the option-presence lattice plus malformed configs, every byte offset of a multi-byte character in leading text) is executed against the real code under catch_unwind with a watchdog; a panic, abort or timeout anywhere is a violation.',
  'note': _NATIVE + '; deep-nesting exhaustion is out of scope per the property',
 },
 'C15': {
  'technique': 'bounded-exhaustive enumeration of statement orders (all ordered selections of L statements from a 14-statement alphabet x verbosity x file) + families A,C; metrics compared with hook call sites counted by the annotated erasure',
  'text': 'For every ordering of instrumented and inspected-but-not-instrumented statements, under every verbosity, the reported count must equal the number of hook call sites in the output AST and the debug breakdown must partition it by the tag of the input operation under each hook.',
  'note': _NATIVE + '; metrics shaping reached through the cfg hook',
 },
 'C16': {
  'technique': 'explicit-state search over call histories: all sequences up to length h over a 20-symbol call alphabet, each executed in its own fresh process, invariant checked after every call against a fresh-process reference',
  'text': 'Every history (modified / not-modified / syntax-error / cancelled / chained / two-comment / literal-heavy / multi-block inputs on two same-config rewriter instances and one default-prefix instance) up to length h, plus every call repeated 25x, runs in its own process; each call must return exactly what a single call in a fresh process returns (content, metrics, literal set, error text).',
  'note': _NATIVE + '; a native process stands in for the wasm instance',
 },
}
