#!/bin/bash
# tools/confirm_seed.sh <dir with patch.diff + demo.diff|demo.js + meta.json> : confirm a seeded change in a scratch worktree
# of /repo HEAD: (1) with the change the 98 baseline tests pass, (2) the demo fails with the change, (3) passes without it.
d=$1
wt=/tmp/confirm_wt
export CARGO_NET_OFFLINE=true
if [ ! -d $wt ]; then git -C /repo worktree add -q --detach $wt HEAD; fi
cd $wt && git checkout -q --detach $(git -C /repo rev-parse HEAD) && git reset -q --hard && git clean -qfd -e target
git apply $d/patch.diff || { echo "RESULT patch-does-not-apply"; exit 1; }
base=$(cargo test --workspace --no-fail-fast --offline 2>&1 | grep -E "^test result" | head -1)
echo "with change, baseline: $base"
if [ -f $d/demo.diff ]; then
  git apply $d/demo.diff || { echo "RESULT demo-does-not-apply"; exit 1; }
  with=$(cargo test --offline seeded_demo 2>&1 | grep -E "^test result" | head -1)
  git apply -R $d/patch.diff
  without=$(cargo test --offline seeded_demo 2>&1 | grep -E "^test result" | head -1)
else
  with=$(REPO=$wt node $d/demo.js $wt 2>&1 | tail -1); 
  git apply -R $d/patch.diff
  without=$(REPO=$wt node $d/demo.js $wt 2>&1 | tail -1)
fi
echo "demo with change   : $with"
echo "demo without change: $without"
git reset -q --hard; git clean -qfd -e target
