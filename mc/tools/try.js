'use strict'
// dev tool: node mc/tools/try.js '<code>' [configName]
const { runOnce } = require('../lib/iastmc')
const { erase, norm } = require('../oracles/erase')
const { cmpTrees, requirements, configModel } = require('../oracles/compare')
const C = require('../grammar/configs')
async function analyse (code, cfg, quiet) {
  const [r] = await runOnce([{ config: cfg, file: '/p/app.js', code, want: ['astIn', 'astOut'] }])
  if (r.status !== 'ok') return { r }
  if (!r.content) return { r, notmodified: true }
  const e = erase(r.reparse.ast, r.prefix)
  const inT = norm(r.parseIn.ast)
  const out = cmpTrees(inT, e.tree, {})
  const reqs = requirements(inT, configModel(cfg))
  return { r, e, out, reqs }
}
module.exports = { analyse }
if (require.main === module) {
  const code = process.argv[2]
  const cfg = C[process.argv[3] || 'FULL']
  analyse(code, cfg).then(({ r, e, out, reqs, notmodified }) => {
    if (r.status !== 'ok') { console.log(r.status, r.error); return }
    console.log(r.content.split('\n//# sourceMappingURL')[0].split('\n').slice(8).join('\n'))
    console.log('metrics', JSON.stringify(r.metrics))
    if (notmodified) return
    console.log('problems', JSON.stringify(e.problems, null, 1))
    console.log('mismatches', JSON.stringify(out.mismatches), 'dup', JSON.stringify(out.duplicated))
    console.log('hooks', e.hooks.map((h) => h.name + ':' + h.kind + ':' + h.restOk).join(' '), 'lets', JSON.stringify(e.lets.map((l) => l.names.length + '@' + l.index)))
    for (const q of reqs) console.log('  req', q.kind, q.must, q.hooked ? 'HOOKED:' + q.hooked.name : '-', q.expected, q.why, q.anc)
  })
}
