'use strict'
// C02 — erasing the instrumentation gives back the input program.
const { mk } = require('../lib/static_driver')
const { mismatchSig } = require('../oracles/analyse')
const SEEDS = require('../grammar/seeds')

const C02_RULES = new Set(['temp-unused', 'temp-nonlinear', 'temp-order', 'temp-assigned-twice', 'unknown-sequence-tail', 'instrumentation-survives-erasure',
  'guard-operator', 'guard-consequent', 'guard-var-foreign', 'guard-not-on-spine', 'guard-var-multiple', 'kept-ident-before-effect', 'temp-outside-sequence',
  'hook-shape', 'hook-first-arg-shape', 'stray-namespace'])

module.exports = mk({
  id: 'C02',
  families: ['A', 'B', 'C', 'G', 'M'],
  corpus: { configs: ['FULL', 'PLUS_ONLY', 'METHODS_ONLY'], quickLimit: 60 },
  extra: async () => {
    const leaves = []
    const stats = { states: 0, transitions: 0 }
    for (const cfg of ['FULL', 'COMMENTS', 'RENAMED']) SEEDS.forEach((s, i) => { stats.states++; stats.transitions++; leaves.push({ fam: 'seed', key: 'seed¦' + i + '¦' + cfg, code: s, config: cfg, desc: 'seed' + i }) })
    return { leaves, stats }
  },
  oracle ({ a, v, res }) {
    if (!a.modified) return
    res.nontrivial = true
    if (a.contentUnparsable) { v('content-unparsable', 'reparse', 'content is not accepted by the rewriter\'s own parser: ' + String(a.contentUnparsable).slice(0, 200)); return }
    if (a.inputUnparsable) return
    for (const p of a.erasure.problems) if (C02_RULES.has(p.rule)) v(p.rule, p.sig, p.detail)
    for (const m of a.mismatches.slice(0, 2)) v('tree-mismatch', mismatchSig(m), `erase(content) differs from input at ${m.path}: ${m.why}; input ${m.a} vs erased output ${m.b} (under ${m.anc})`)
    for (const d of a.duplicated) v('duplicated-target', d.part.replace(/:.*/, ''), `target ${d.target} of += is evaluated twice (${d.part})`)
  },
  bound: (tier) => ({ deviations_k: tier === 'thorough' ? 3 : 2, nesting_depth: 2, corpus_files: tier === 'thorough' ? 'all' : 60 }),
  rule: 'leaf = program of families A,B,C,G (bounded-exhaustive grammar derivations), seed programs, or corpus file x config; non-trivial = reported modified (there is instrumentation to erase); distinct by (text, config, file)',
  explanation: 'explicit enumeration of the program space + real library files; oracle = annotated erasure of AST(content) must equal AST(input) node by node, with linearity and evaluation-order checks on every temporary',
  assumptions: ['ASTs come from the rewriter\'s own parser (swc) with its own options', 'comparison ignores parentheses, spans and literal spelling only']
})
