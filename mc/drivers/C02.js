'use strict'
// C02 — erasing the instrumentation gives back the input program.
const { mk } = require('../lib/static_driver')
const { mismatchSig } = require('../oracles/analyse')
const SEEDS = require('../grammar/seeds')

const C02_RULES = new Set(['temp-unused', 'temp-nonlinear', 'temp-order', 'temp-assigned-twice', 'unknown-sequence-tail', 'instrumentation-survives-erasure',
  'guard-operator', 'guard-consequent', 'guard-var-foreign', 'guard-not-on-spine', 'guard-var-multiple', 'kept-ident-before-effect', 'temp-outside-sequence',
  'hook-shape', 'hook-first-arg-shape', 'stray-namespace', 'temp-self-reference'])

module.exports = mk({
  id: 'C02',
  families: ['A', 'B', 'C', 'G', 'M', 'S', 'T', 'H', 'Q', 'R', 'N', 'L', 'K'],
  corpus: { configs: ['FULL', 'PLUS_ONLY', 'METHODS_ONLY'], quickLimit: 60 },
  extra: async () => {
    const leaves = []
    const stats = { states: 0, transitions: 0 }
    for (const cfg of ['FULL', 'COMMENTS', 'RENAMED']) SEEDS.forEach((s, i) => { stats.states++; stats.transitions++; leaves.push({ fam: 'seed', key: 'seed¦' + i + '¦' + cfg, code: s, config: cfg, desc: 'seed' + i }) })
    // untouched syntax that is re-printed wholesale by the code generator (one instrumented statement
    // forces the file to be printed)
    const EXOTIC = [
      'let [p, q, ,] = g();', 'let [, , r1] = g();', 'x = [, ,];', 'x = [a, , b, ,];', '[, x] = g();', 'x = [...a, , ...b];',
      'x = /[/]\\//g.test(a) / 2;', 'x = a / b / c;', 'x = a++ + ++b;', 'x = a-- - --b;', 'x = - -a; y = + +a; y = -(-a); y = !(!a);', 'x = a - (b - c); y = a / (b / c); y = a ** b ** c; y = (a ** b) ** c;',
      'x = (a, b); y = (a = b, c);', 'x = a ? b : c ? d : e; y = (a ? b : c) ? d : e;', 'x = a ?? (b || c); y = (a ?? b) || c; y = a && (b || c);', 'x = 1_000_000n + 0x1Fn; y = 0b101 + 0o17 + .5e-3 + 5..toString();',
      'x = "\\u{1F600}\\n\\"\\\'"; y = \'\\x41\\0\';', 'x = `a\\`b${c}\\${d}\\n`; y = String.raw`\\n${a}`;', 'x = { "a-b": 1, 2: 3, [c]: 4, __proto__: null, d, ...e, get f() { return 1 }, set f(v) {}, async *g() {}, async h() {}, *i() {} };',
      'class K2 extends (a, b) { static #p = 1; #q; static { x = 1 } get #r() { return this.#q } static async *[c]() {} constructor() { super(); new.target } accessor z = 1 }',
      'l1: for (;;) { l2: while (1) { if (a) continue l1; else break l2 } break }', 'for (var i2 = 0, j2 = (1, 2); i2 < j2; i2++, j2--);', 'for (const [k2, v2] of Object.entries(o)) ; for (var k3 in o) ;',
      'if (a) ; else if (b) ; else ;', 'do ; while (a)', 'switch (a) { case 1: case 2: { break } default: }', 'try { } catch { } finally { }', 'try { } catch ({ message }) { }',
      'var { a: { b: [c2 = 1, ...d2] = [] } = {}, ...e2 } = o;', 'function g3(a3, { b3 = 1, c3: [d3] } = {}, ...r3) { "use strict"; return arguments.length }', 'x = async function* () { for await (const q of a) yield* q };',
      'x = (a3) => (b3) => ({}); y = async () => ({}).z; y = () => { };', 'x = a?.b?.[c]?.(d)?.e; y = (a?.b).c; y = a?.[b].c(d);', 'x = new a.b.c; y = new (a.b()).c; y = new (a())(); y = new a()();',
      'x = void 0, y = typeof a === "undefined", delete o.p;', 'x = a in o; y = a instanceof X; y = !(a in o); y = !(a instanceof X);', 'if (a) function decl() {}', 'x = a\n++b', 'var let_ = 1; var async = 2; var of = 3; var get = 4; var yield_ = 5;',
      'x = a <!-- b', 'x = function () { return\na }', 'debugger;', 'x = import("m"); y = import.meta;'.replace('; y = import.meta;', ';'), "x = a.if.class.new.delete; y = { if: 1, class: 2 };", 'x = a\n/re/g.test(b)', 'x = (function () {}).call(this); y = (() => {})(); y = (class {}).name;', 'x = ((a)); y = ((a, b)); y = ([a] = b); y = ({ a } = b);'
    ]
    for (const cfg of ['FULL', 'COMMENTS']) EXOTIC.forEach((st, i) => { stats.states++; stats.transitions++; leaves.push({ fam: 'exotic', key: 'exotic¦' + i + '¦' + cfg, code: `function f(a, b, c, d, e, o, g, X, x, y) { x = a + b; ${st}\n}`, config: cfg, desc: 'exotic' + i }) })
    // literal tokens whose spelling the printer may change: the VALUE (cooked and raw) has to survive
    const F = require('../grammar/families')
    for (const tok of F.lexicalTokens('quick')) for (const place of F.LEX_PLACES.slice(0, 2)) { stats.states++; stats.transitions++; leaves.push({ fam: 'lexical', key: 'lex¦' + place.length + '¦' + tok, code: place.split('@@').join(tok), config: 'FULL', desc: 'lexical token' }) }
    return { leaves, stats }
  },
  oracle ({ a, v, res }) {
    if (!a.modified) return
    res.nontrivial = true
    if (a.contentUnparsable) { v('content-unparsable', 'reparse', 'content is not accepted by the rewriter\'s own parser: ' + String(a.contentUnparsable).slice(0, 200)); return }
    if (a.inputUnparsable) return
    for (const p of a.erasure.problems) if (C02_RULES.has(p.rule)) v(p.rule, p.sig, p.detail)
    for (const m of a.mismatches.slice(0, 2)) v('tree-mismatch', mismatchSig(m), `erase(content) differs from input at ${m.path}: ${m.why}; input ${m.a} vs erased output ${m.b} (under ${m.anc})`)
    for (const d of a.duplicated) v('duplicated-target', d.part.replace(/:.*/, ''), `target ${d.target} of += is evaluated twice (${d.part})`)
  },
  bound: (tier) => ({ deviations_k: tier === 'thorough' ? 3 : 2, nesting_depth: 2, corpus_files: tier === 'thorough' ? 'all' : 60 }),
  rule: 'leaf = program of families A,B,C,G (bounded-exhaustive grammar derivations), seed programs, or corpus file x config; non-trivial = reported modified (there is instrumentation to erase); distinct by (text, config, file)',
  explanation: 'explicit enumeration of the program space + real library files; oracle = annotated erasure of AST(content) must equal AST(input) node by node, with linearity and evaluation-order checks on every temporary',
  assumptions: ['ASTs come from the rewriter\'s own parser (swc) with its own options', 'comparison ignores parentheses, spans and literal spelling only']
})
