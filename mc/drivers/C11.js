'use strict'
// C11 — stack traces and locations of rewritten files report original file and line.
// Real main.js / js/source-map / js/stack-trace (through bridge.js), real V8 call sites: every file is
// rewritten through the caching rewriter, its content is compiled under its own file name in the main
// realm and every generator-known throw site is thrown and looked up, on both prepareStackTrace paths.
const vm = require('vm')
const fs = require('fs')
const os = require('os')
const path = require('path')
const { enumerate, histories, addStats } = require('../lib/explore')
const bridge = require('../lib/bridge')
const SM = require('../oracles/srcmap')
const C = require('../grammar/configs')

const b64 = (s) => Buffer.from(s, 'utf8').toString('base64')

// ---- files with generator-known throw sites (markers /*@name*/ sit on the site's line) -----------------
const A_BODY = [
  'function a1(x, y) {',
  '  const s = x + y',
  "  if (s !== null) throw new Error('a1') /*@a1*/",
  '  return s',
  '}',
  '',
  'function a2(x) {',
  '  return x.trim() + ((z) => { /*@a2c*/',
  "    throw new Error('a2') /*@a2*/",
  '  })(x) /*@a2c*/',
  '}',
  '',
  'function a3(x) {',
  "  return eval(\"x + (function () { throw new Error('a3') })()\") /*@a3*/",
  '}',
  '',
  'function a4(x) {',
  "  const o = { toString() { throw new Error('a4') /*@a4*/ } }",
  '  return `${x}${o}` /*@a4c*/',
  '}',
  '',
  'function a5(x, cb) {',
  '  return x.concat(cb()) /*@a5c*/',
  '}',
  '',
  'function a6(x) {',
  '  let acc = x',
  '  for (const q of [1]) {',
  '    acc += (() => {',
  "      throw new TypeError('a6') /*@a6*/",
  '    })() /*@a6c*/',
  '  }',
  '  return acc',
  '}',
  '',
  'function a7(x) {',
  "  const m = x + '\\n    at inner (/somewhere/else.js:1:1)'",
  '  throw new Error(m) /*@a7*/',
  '}',
  '',
  'function a8(x) {',
  '  return [x + 1].map((q) => { /*@a8c*/',
  "    throw new Error('a8' + q) /*@a8*/",
  '  }) /*@a8c*/',
  '}',
  '',
  'class K9 {',
  '  constructor (x) {',
  "    this.s = x + '!'",
  "    throw new Error('a9') /*@a9*/",
  '  }',
  '',
  '  get g () {',
  "    throw new Error('a10' + this.q) /*@a10*/",
  '  }',
  '}',
  'function a9(x) {',
  '  return new K9(x) /*@a9c*/',
  '}',
  'function a10(x) {',
  '  return Object.create(K9.prototype).g + x /*@a10c*/',
  '}',
  'function fail11(x) {',
  "  throw new Error('a11' + x) /*@a11*/",
  '}',
  'function a11(n, t) {',
  '  return n > 0 /*@a11c*/',
  '    ? a11(n - 1, t + n) /*@a11c*/',
  "    : fail11('bottom ' + t) /*@a11c*/",
  '}',
  'module.exports = { a1, a2, a3, a4, a5, a6, a7, a8, a9, a10, a11 }'
]
const B_BODY = [
  'function b1(x) {',
  '  const t = x?.trim().length',
  "  throw new RangeError('b1' + t) /*@b1*/",
  '}',
  'module.exports = { b1 }'
]
const A_NOTMOD = Array.from({ length: 22 }, (_, i) => '// filler line ' + i + ' (no instrumentable operation in this version)').concat([
  'function a1(x, y) {',
  "  throw new Error('a1') /*@a1*/",
  '}',
  'module.exports = { a1 }'
])
const LAYOUTS = {
  v1: (lines) => ['// version 1'].concat(lines),
  v2: (lines) => ['// version 2', '/* extra', '   header', '   lines */', ''].concat(lines.map((l) => l === '' ? '\n\n' : l).join('\n').split('\n')),
  crlf: (lines) => ['// crlf'].concat(lines).map((l) => l + '\r'),
  // text that looks like the trailer, earlier in the file: a string literal, a template and a real (mid-file) comment
  lookalike: (lines) => ["const marker = '//# sourceMappingURL=data:application/json;base64,' + 'e30='", '//# sourceMappingURL=ghost.js.map', 'const tpl = `\n//# sourceMappingURL=data:application/json;base64,e30=\n`'].concat(lines).join('\n').split('\n'),
  // a site on the very first line of the file (0 in the 0-based coordinates of the map)
  first_line: (lines) => ["function z1(x) { throw new Error('z1' + x) } /*@z1*/"].concat(lines).concat(['module.exports.z1 = z1']),
  bmp: (lines) => ["// ñ€ header ‘x’"].concat(lines.map((l) => l.replace('/*@', "/* ñ€ */ /*@")))
}
const DIR = '/p/c11'
// base names of the rewritten file ('' = the body's own short name); legal names that are awkward for
// text-based frame handling
const FILE_NAMES = ['', 'with space', 'paren(1)', 'dollar$&amp', 'dollar$$twice', "dollar$'quote", 'dollar$`tick', 'ñ€ü', 'colon:3:4', 'at x (y', 'dots.min.v2', '-dash', 'file:', '%41',
  // files named relatively in the call (REL: = not joined to the directory): the directory part is in the name
  'REL:lib/util/strings', 'REL:bare', 'REL:../shared/up', 'REL:lib/lib/twice', 'REL:a/b/../c/dotdot']
// how the pre-transpilation sources are named in the original map (chained files)
const SRC_KINDS = {
  relative: (n) => ({ names: [n + '.ts', n + '_part2.ts'], paths: [path.join(DIR, n + '.ts'), path.join(DIR, n + '_part2.ts')] }),
  updir: (n) => ({ names: ['../src/' + n + '.ts', './' + n + '_part2.ts'], paths: [path.join('/p/src', n + '.ts'), path.join(DIR, n + '_part2.ts')] }),
  absolute: (n) => ({ names: ['/abs/src/' + n + '.ts', '/abs/src/' + n + '_part2.ts'], paths: ['/abs/src/' + n + '.ts', '/abs/src/' + n + '_part2.ts'] }),
  source_root: (n) => ({ names: [n + '.ts', n + '_part2.ts'], sourceRoot: '../root/', paths: [path.join('/p/root', n + '.ts'), path.join('/p/root', n + '_part2.ts')] }),
  // a stale reference right before the effective one (both trail the last token): the LAST one decides
  stale_then_effective: (n) => ({ names: [n + '.ts', n + '_part2.ts'], paths: [path.join(DIR, n + '.ts'), path.join(DIR, n + '_part2.ts')], stale: true }),
  source_root_abs: (n) => ({ names: [n + '.ts', n + '_part2.ts'], sourceRoot: '/abs/root', paths: ['/abs/root/' + n + '.ts', '/abs/root/' + n + '_part2.ts'] })
}
function mkFile (name, body, layout, chained, srcKind) {
  let lines = LAYOUTS[layout](body)
  const sites = {}
  lines.forEach((l, i) => { const re = /\/\*@(\w+)\*\//g; let m; while ((m = re.exec(l))) (sites[m[1]] = sites[m[1]] || []).push(i + 1) })
  let code = lines.join('\n') + '\n'
  const file = name.startsWith('REL:') ? name.slice(4) + '.js' : path.join(DIR, name + '.js')
  const tsShift = 20
  // (the lookup joins directory and source: `a/b/../c/x.js` is reported as `a/c/x.js`, the same path)
  let orig = { path: name.startsWith('REL:') ? path.normalize(file) : file, shift: 0 }
  if (chained) {
    // a synthetic "pre-transpilation" source: line L of this file is line L + 20 of <name>.ts
    // two original sources (a bundle): the first half of the lines comes from <name>.ts, the rest from <name>_part2.ts
    const split = Math.floor(lines.length / 2)
    const segs = lines.map((_, i) => ({ gl: i, gc: 0, src: i < split ? 0 : 1, ol: i + tsShift, oc: 0 }))
    const sk = SRC_KINDS[srcKind || 'relative'](name)
    const M = SM.encodeMap({ sources: sk.names, names: [], segments: segs, file: name + '.js', sourceRoot: sk.sourceRoot })
    if (sk.stale) code += '//# sourceMappingURL=data:application/json;base64,' + b64(JSON.stringify(SM.encodeMap({ sources: ['stale.ts'], names: [], segments: lines.map((_, i) => ({ gl: i, gc: 0, src: 0, ol: i + 300, oc: 0 })), file: name + '.js' }))) + '\n'
    code += '//# sourceMappingURL=data:application/json;base64,' + b64(JSON.stringify(M)) + '\n'
    orig = { path: sk.paths[0], path2: sk.paths[1], split, shift: tsShift }
  }
  return { file, code, sites, orig, lineCount: lines.length }
}

const CALLS = {
  a1: (m) => m.a1('x', 'y'),
  a2: (m) => m.a2(' z '),
  a3: (m) => m.a3('e'),
  a4: (m) => m.a4('t'),
  a5: (m) => m.a5('c', function driverCallback () { throw new Error('a5') }),
  a6: (m) => m.a6('k'),
  a7: (m) => m.a7('wrapped: Error: inner'),
  a8: (m) => m.a8('n'), // a native frame (Array.map) between two frames of the file
  a9: (m) => m.a9('k'), // constructor frame
  a10: (m) => m.a10('g'), // getter frame
  a11: (m) => m.a11(2, ''), // several frames on ONE line of the content, the innermost rightmost
  b1: (m) => m.b1(' q '),
  z1: (m) => m.z1('f')
}
// sites of the position-collision file (see collisionFile)
for (let k = 0; k < 16; k++) CALLS['s' + k] = (m) => m['s' + k]()
// top-frame site of each call (null: the top frame is not in the rewritten file)
const TOP = { a1: 'a1', a2: 'a2', a3: null, a4: 'a4', a5: null, a6: 'a6', a7: 'a7', a8: 'a8', a9: 'a9', a10: 'a10', a11: 'a11', b1: 'b1', z1: 'z1' }

function load (file, content) {
  const mod = { exports: {} }
  vm.compileFunction(content, ['module', 'exports'], { filename: file })(mod, mod.exports)
  return mod.exports
}

function frameInfo (c) {
  return { file: c.getFileName(), line: c.getLineNumber(), col: c.getColumnNumber(), eval: c.isEval() ? String(c.getEvalOrigin()) : null, fn: c.getFunctionName() }
}
function capture (fn, mode, main) {
  const saved = Error.prepareStackTrace
  const savedLimit = Error.stackTraceLimit
  Error.stackTraceLimit = 40
  try {
    if (mode === 'raw') Error.prepareStackTrace = (e, cs) => cs.map(frameInfo)
    else if (mode === 'handler') Error.prepareStackTrace = main.getPrepareStackTrace((e, cs) => cs.map(frameInfo))
    else if (mode === 'string') Error.prepareStackTrace = main.getPrepareStackTrace()
    else Error.prepareStackTrace = undefined
    try { fn(); return { nothrow: true } } catch (e) { try { return { stack: e.stack, name: e.name } } catch (e2) { return { handlerThrew: String(e2 && e2.message) } } }
  } catch (e3) { return { handlerThrew: String(e3 && e3.message) } } finally { Error.prepareStackTrace = saved; Error.stackTraceLimit = savedLimit }
}

// judge every site of one loaded file. `expect` = {path, shift, sites, translate:boolean}
function judge (main, exportsObj, fileInfo, expect, v, where, notes) {
  // chained bundles: the original file depends on the (intermediate) line
  const pathOf = (translatedLine) => (expect.path2 && (translatedLine - expect.shift) > expect.split) ? expect.path2 : expect.path
  for (const name of Object.keys(CALLS)) {
    if (!(name in exportsObj)) continue
    const call = () => CALLS[name](exportsObj)
    // all four captures are taken from ONE source line of this driver, so that the driver's own frames
    // (files that were never rewritten) are identical in the four stacks
    const cap = {}
    for (const mode of ['raw', 'default', 'handler', 'string']) cap[mode] = capture(call, mode, main)
    const raw = cap.raw; const def = cap.default; const han = cap.handler; const str = cap.string
    notes.lookups = (notes.lookups || 0) + 1
    if (han.handlerThrew || str.handlerThrew) { v('handler-threw', han.handlerThrew ? 'handler' : 'string', `${where}: prepareStackTrace threw for site ${name}: ${han.handlerThrew || str.handlerThrew}`); continue }
    if (!Array.isArray(raw.stack) || !Array.isArray(han.stack) || typeof str.stack !== 'string' || typeof def.stack !== 'string') { v('no-stack', name, `${where}: could not capture stacks for ${name}`); continue }
    const markerLines = new Set([].concat(...Object.values(expect.sites)))
    const okLine = (line, isTop) => {
      if (!expect.translate) return null // identity expected, judged below
      const orig = line - expect.shift
      if (isTop && TOP[name]) return (expect.sites[TOP[name]] || []).includes(orig)
      return markerLines.has(orig)
    }
    // --- path 1: user handler receives wrapped call sites ---
    if (han.stack.length !== raw.stack.length) v('handler-frame-count', name, `${where}: handler saw ${han.stack.length} frames, V8 produced ${raw.stack.length}`)
    let firstInFile = true
    raw.stack.forEach((r, i) => {
      const h = han.stack[i]
      if (!h) return
      if (r.file === fileInfo.file) {
        const isTop = firstInFile && i === 0
        firstInFile = false
        if (expect.translate && expect.decoded) {
          // independent greatest-lower-bound lookup in the very map the content carries
          const mm = SM.lookup(expect.decoded, r.line - 1, Math.max(r.col - 1, 0))
          if (mm && mm.ol + 1 !== h.line) v('frame-line-differs-from-map', 'handler', `${where}: site ${name} frame ${i} at content ${r.line}:${r.col}: the embedded map gives original line ${mm.ol + 1}, the handler saw ${h.line}`)
        }
        if (expect.translate) {
          if (h.file !== pathOf(h.line)) v('frame-wrong-path', 'handler', `${where}: site ${name} frame ${i}: reported file ${h.file}:${h.line}, original is ${pathOf(h.line)}`)
          else if (!okLine(h.line, isTop)) v('frame-wrong-line', 'handler:' + (isTop ? 'top' : 'caller'), `${where}: site ${name} frame ${i} (${r.fn}) at content line ${r.line} reported as line ${h.line}; original site lines: ${JSON.stringify(expect.sites)} shift ${expect.shift}`)
        } else if (h.file !== r.file || h.line !== r.line) v('untracked-frame-changed', 'handler', `${where}: site ${name} frame ${i}: no map should apply, yet ${r.file}:${r.line} became ${h.file}:${h.line}`)
      } else if (h.file !== r.file || h.line !== r.line || h.col !== r.col) v('foreign-frame-changed', 'handler', `${where}: frame ${i} of ${name} belongs to ${r.file} (not rewritten) but ${r.file}:${r.line}:${r.col} became ${h.file}:${h.line}:${h.col}`)
    })
    // --- path 2: V8's string, rewritten line by line ---
    const dl = def.stack.split('\n'); const sl = str.stack.split('\n')
    if (dl.length !== sl.length) { v('string-line-count', name, `${where}: formatted stack has ${sl.length} lines, V8's has ${dl.length}`); continue }
    // the frames are the LAST raw.stack.length lines (a message may itself contain lines that look like frames)
    const firstAt = dl.length - raw.stack.length
    dl.forEach((d, li) => {
      const s = sl[li]
      if (li < firstAt) { if (s !== d) v('string-header-changed', name, `${where}: message line changed`); return }
      const r = raw.stack[li - firstAt]
      if (!r) { if (s !== d) v('foreign-frame-changed', 'string', `${where}: line ${li} changed: ${d} -> ${s}`); return }
      // location inside this file: either the frame itself or (eval frames) its eval origin
      const inFile = r.file === fileInfo.file || (r.eval && r.eval.includes(fileInfo.file + ':'))
      if (!inFile) { if (s !== d) v('foreign-frame-changed', 'string', `${where}: frame of ${r.file} changed: "${d.trim()}" -> "${s.trim()}"`); return }
      const m = new RegExp(escapeRe(fileInfo.file) + ':(\\d+):(\\d+)').exec(d)
      if (!m) return
      if (!expect.translate) { if (s !== d) v('untracked-frame-changed', 'string', `${where}: no map should apply, yet "${d.trim()}" -> "${s.trim()}"`); return }
      const m2 = new RegExp('(?:' + escapeRe(expect.path) + (expect.path2 ? '|' + escapeRe(expect.path2) : '') + '):(\\d+):(\\d+)').exec(s)
      const isTop = li === firstAt && r.file === fileInfo.file
      if (m2 && !m2[0].startsWith(pathOf(Number(m2[1])) + ':')) { v('frame-wrong-path', 'string:source', `${where}: site ${name}: "${s.trim()}" names the wrong original file for that line (expected ${pathOf(Number(m2[1]))})`); return }
      if (!m2) { v('frame-wrong-path', 'string' + (r.eval ? ':eval' : ''), `${where}: site ${name}: "${d.trim()}" was not translated to ${expect.path} ("${s.trim()}")`); return }
      if (!okLine(Number(m2[1]), isTop)) v('frame-wrong-line', 'string:' + (r.eval ? 'eval' : isTop ? 'top' : 'caller'), `${where}: site ${name}: "${d.trim()}" became "${s.trim()}"; original site lines ${JSON.stringify(expect.sites)} shift ${expect.shift}`)
      // everything but the location must be byte-identical
      if (s.replace(m2[0], '') !== d.replace(m[0], '') && expect.path !== fileInfo.file) v('string-frame-text-changed', name, `${where}: "${d.trim()}" -> "${s.trim()}"`)
    })
  }
}
function decodedMapOf (content) { try { const t = require('../oracles/v8parse').trailerInfo(content); return t.map ? SM.decodeMap(t.map) : null } catch (e) { return null } }
function escapeRe (s) { return s.replace(/[.*+?^${}()|[\]\\]/g, '\\$&') }

// A NOT-modified version of a.js whose throw sites sit at exactly the content line:column of the in-file
// frames of the rewritten A1: a lookup answered from anything remembered for the earlier content shows up
let collision = null
function collisionFile (a1Content, a1File) {
  if (collision) return collision
  const ex = load(a1File, a1Content)
  const pos = new Map()
  for (const name of Object.keys(CALLS)) {
    if (!(name in ex)) continue
    const cap = capture(() => CALLS[name](ex), 'raw')
    if (Array.isArray(cap.stack)) for (const fr of cap.stack) if (fr.file === a1File && fr.col >= 7 && fr.line >= 3 && !pos.has(fr.line)) pos.set(fr.line, fr.col)
  }
  const targets = Array.from(pos).sort((a, b) => a[0] - b[0]).slice(0, 16)
  const lines = []
  while (lines.length < targets[0][0] - 2) lines.push('// filler (no instrumentable operation in this version)')
  lines.push('function site(k) { switch (k) { case 0:')
  targets.forEach(([l, c], i) => {
    while (lines.length < l - 1) lines.push('// filler')
    lines.push(' '.repeat(c - 7) + `throw new Error('s${i}'); case ${i + 1}:`)
  })
  lines.push('}}')
  lines.push('module.exports = {' + targets.map((_, i) => `s${i}: () => site(${i})`).join(', ') + '}')
  collision = { file: a1File, code: lines.join('\n') + '\n', sites: {}, orig: { path: a1File, shift: 0 }, lineCount: lines.length, targets }
  return collision
}

// ---- leaves -------------------------------------------------------------------------------------------------
const VERSIONS = {
  A1: () => mkFile('a', A_BODY, 'v1', false),
  A2: () => mkFile('a', A_BODY, 'v2', false),
  A3: () => mkFile('a', A_NOTMOD, 'v1', false),
  Aerr: () => ({ file: path.join(DIR, 'a.js'), code: 'function a1( { return', sites: {}, orig: { path: path.join(DIR, 'a.js'), shift: 0 }, lineCount: 1 }),
  B1: () => mkFile('b', B_BODY, 'v1', false),
  A1c: () => mkFile('a', A_BODY, 'v1', true),
  B1c: () => mkFile('b', B_BODY, 'v2', true)
}
function cfgFor (ver, comments) { return Object.assign({}, C.FULL, { chainSourceMap: /c$/.test(ver), comments: !!comments }) }

async function build (tier) {
  const leaves = []
  let stats = { states: 1, transitions: 0 }
  { // (P) single files: body x layout x chained x comments
    const r = enumerate([{ name: 'body', symbols: ['A', 'B'], free: true }, { name: 'layout', symbols: Object.keys(LAYOUTS), free: true }, { name: 'chained', symbols: [false, true], free: true }, { name: 'comments', symbols: [false, true], free: true }, { name: 'fname', symbols: FILE_NAMES, free: true }, { name: 'src', symbols: Object.keys(SRC_KINDS), free: true }], { valid: (cur, i) => !(i >= 5 && !cur.chained && cur.src !== 'relative') && !(i >= 4 && cur.chained && String(cur.fname).startsWith('REL:')) })
    stats = addStats(stats, r.stats)
    for (const l of r.leaves) leaves.push({ fam: 'file', key: ['file', l.pick.body, l.pick.layout, l.pick.chained, l.pick.comments, l.pick.fname, l.pick.src].join('¦'), pick: l.pick })
  }
  { // (H) histories of rewrite events on the caching rewriter
    const h = tier === 'thorough' ? 5 : 3
    const r = histories(['A1', 'A2', 'B1', 'A3', 'Aerr', 'A1c', 'A5'], h)
    stats = addStats(stats, r.stats)
    for (const hist of r.histories) leaves.push({ fam: 'history', key: 'hist¦' + hist.join(','), hist })
  }
  { // (O) getOriginalPathAndLineFromSourceMap on files that were never rewritten
    const kinds = ['inline', 'external', 'missing_map', 'none', 'nonexistent', 'charset', 'malformed', 'directory', 'empty', 'not_a_map', 'index_map']
    const args = ['normal', 'line0', 'line_undefined', 'column_undefined', 'line_beyond', 'filename_undefined', 'filename_empty', 'line_string']
    const r = enumerate([{ name: 'kind', symbols: kinds, free: true }, { name: 'args', symbols: args, free: true }, { name: 'repeat', symbols: [1, 3], free: true }], {})
    stats = addStats(stats, r.stats)
    for (const l of r.leaves) leaves.push({ fam: 'disk', key: ['disk', l.pick.kind, l.pick.args, l.pick.repeat].join('¦'), pick: l.pick })
  }
  return { leaves, stats, bound: { history_length: tier === 'thorough' ? 5 : 3, events: 7, layouts: Object.keys(LAYOUTS).length }, alphabets: { events: ['A1', 'A2', 'B1', 'A3(not modified)', 'Aerr(syntax error)', 'A1c(chained)', 'A5(not modified, throw sites at the content positions of rewritten A1)'], sites: Object.keys(CALLS), layouts: Object.keys(LAYOUTS) } }
}

function requests (leaf) {
  if (leaf.fam === 'file') {
    const f = mkFile(leaf.pick.fname || leaf.pick.body.toLowerCase(), leaf.pick.body === 'A' ? A_BODY : B_BODY, leaf.pick.layout, leaf.pick.chained, leaf.pick.src)
    return [{ config: Object.assign({}, C.FULL, { chainSourceMap: leaf.pick.chained, comments: leaf.pick.comments }), file: f.file, code: f.code }]
  }
  if (leaf.fam === 'history') return Array.from(new Set(leaf.hist.map((ver) => ver === 'A5' ? 'A1' : ver))).map((ver) => { const f = VERSIONS[ver](); return { config: cfgFor('c'), file: f.file, code: f.code, id: ver } })
  return []
}

let tmpDir = null
function diskFixture () {
  if (tmpDir) return tmpDir
  tmpDir = fs.mkdtempSync(path.join(os.tmpdir(), 'verif-c11-'))
  process.on('exit', () => { try { fs.rmSync(tmpDir, { recursive: true, force: true }) } catch (e) {} })
  const body = 'line1\nline2\nline3\n'
  const M = JSON.stringify(SM.encodeMap({ sources: ['orig.ts'], names: [], segments: [0, 1, 2].map((i) => ({ gl: i, gc: 0, src: 0, ol: i + 20, oc: 0 })) }))
  const w = (n, c) => fs.writeFileSync(path.join(tmpDir, n), c)
  w('inline.js', body + '//# sourceMappingURL=data:application/json;base64,' + b64(M))
  w('external.js', body + '//# sourceMappingURL=external.js.map'); w('external.js.map', M)
  w('missing_map.js', body + '//# sourceMappingURL=nowhere.js.map')
  w('none.js', body)
  w('charset.js', body + '//# sourceMappingURL=data:application/json;charset=utf-8;base64,' + b64(M))
  w('malformed.js', body + '//# sourceMappingURL=malformed.js.map'); w('malformed.js.map', M.slice(0, 30))
  fs.mkdirSync(path.join(tmpDir, 'directory'))
  w('empty.js', '')
  w('not_a_map.js', body + '//# sourceMappingURL=not_a_map.js.map'); w('not_a_map.js.map', '{"hello":1}')
  w('index_map.js', body + '//# sourceMappingURL=index_map.js.map'); w('index_map.js.map', JSON.stringify({ version: 3, sections: [{ offset: { line: 0, column: 0 }, map: JSON.parse(M) }] }))
  return tmpDir
}

async function check (leaf, resps, ctx) {
  const res = { nontrivial: true, outcome: leaf.fam, violations: [], distinctKey: leaf.key, notes: {} }
  const v = (rule, sig, detail) => res.violations.push({ rule, sig, detail: detail + '\n  leaf: ' + leaf.key })
  const main = bridge.loadMain() // fresh module instances: the caches are part of the state
  if (leaf.fam === 'file') {
    const p = leaf.pick
    const f = mkFile(p.fname || p.body.toLowerCase(), p.body === 'A' ? A_BODY : B_BODY, p.layout, p.chained, p.src)
    const config = Object.assign({}, C.FULL, { chainSourceMap: p.chained, comments: p.comments })
    if (resps[0].status !== 'ok' || !resps[0].content) { v('setup', 'rewrite', 'file was not rewritten: ' + resps[0].status); return res }
    bridge.provide(config, f.code, f.file, resps[0])
    const out = new main.Rewriter(config).rewrite(f.code, f.file)
    let ex
    try { ex = load(f.file, out.content) } catch (e) { v('content-does-not-load', 'load', String(e).slice(0, 160)); return res }
    judge(main, ex, f, { path: f.orig.path, path2: f.orig.path2, split: f.orig.split, shift: f.orig.shift, sites: f.sites, translate: true, decoded: decodedMapOf(out.content) }, v, `file ${path.basename(f.file)} (${p.layout}${p.chained ? ', chained' : ''})`, res.notes)
    // (chained files) the same file again with an original map under which every in-file frame keeps its very
    // content line:column and only the FILE changes: a translation that looks at positions alone would skip it
    if (p.chained && p.src === 'relative' && !p.fname) {
      const frames = new Map() // content line -> column of the first frame seen on it
      for (const name of Object.keys(CALLS)) {
        if (!(name in ex)) continue
        const cap = capture(() => CALLS[name](ex), 'raw', main)
        if (Array.isArray(cap.stack)) for (const fr of cap.stack) if (fr.file === f.file && !fr.eval && !frames.has(fr.line)) frames.set(fr.line, fr.col)
      }
      // content line L holds intermediate line i(L) (through the plain rewrite map): read it from the decoded trailer
      const t = require('../oracles/v8parse').trailerInfo(out.content)
      const plain = await ctx.service.send({ config: Object.assign({}, config, { chainSourceMap: false }), file: f.file, code: f.code })
      const R = SM.decodeMap(require('../oracles/v8parse').trailerInfo(plain.content).map)
      const lines = f.code.split('\n')
      const segs = []
      const wanted = new Map() // intermediate line -> [content line, content col]
      for (const [cl, cc] of frames) { const m = SM.lookup(R, cl - 1, cc - 1); if (m && !wanted.has(m.ol)) wanted.set(m.ol, [cl, cc]) }
      for (let i = 0; i < f.lineCount; i++) { const w = wanted.get(i); segs.push(w ? { gl: i, gc: 0, src: 0, ol: w[0] - 1, oc: w[1] - 1 } : { gl: i, gc: 0, src: 0, ol: i + 500, oc: 0 }) }
      const M2 = SM.encodeMap({ sources: ['same.ts'], names: [], segments: segs, file: 'a.js' })
      const body = lines.slice(0, f.lineCount).join('\n') + '\n'
      const code2 = body + '//# sourceMappingURL=data:application/json;base64,' + b64(JSON.stringify(M2)) + '\n'
      const r2 = await ctx.service.send({ config, file: f.file, code: code2 })
      if (r2.status === 'ok' && r2.content) {
        bridge.provide(config, code2, f.file, r2)
        const out2 = new main.Rewriter(config).rewrite(code2, f.file)
        const ex2 = load(f.file, out2.content)
        const ts = path.join(DIR, 'same.ts')
        let judged = 0
        for (const name of Object.keys(CALLS)) {
          if (!(name in ex2)) continue
          const raw = capture(() => CALLS[name](ex2), 'raw', main); const str = capture(() => CALLS[name](ex2), 'string', main); const han = capture(() => CALLS[name](ex2), 'handler', main)
          if (!Array.isArray(raw.stack) || typeof str.stack !== 'string' || !Array.isArray(han.stack)) continue
          raw.stack.forEach((fr, i) => {
            if (fr.file !== f.file || fr.eval || frames.get(fr.line) !== fr.col) return
            judged++
            const want = `${ts}:${fr.line}:${fr.col}`
            if (han.stack[i] && han.stack[i].file !== ts) v('frame-wrong-path', 'handler:same-position', `site ${name}: frame at content ${fr.line}:${fr.col} maps to the same line:column of ${ts}, handler saw ${han.stack[i].file}:${han.stack[i].line}`)
            if (!str.stack.includes(want)) v('frame-wrong-path', 'string:same-position', `site ${name}: frame at content ${fr.line}:${fr.col} maps to the same line:column of another file; the formatted stack does not contain ${want}`)
          })
        }
        res.notes.same_position_frames = judged
        if (!judged) v('setup', 'same-position', 'no frame kept its position under the identity-position map')
      } else v('setup', 'same-position', 'second rewrite failed: ' + r2.status)
    }
    // wrapping is idempotent and marks the handler
    const handler = () => 'x'
    const w1 = main.getPrepareStackTrace(handler)
    if (main.getPrepareStackTrace(w1) !== w1) v('wrap-not-idempotent', 'wrap', 'getPrepareStackTrace(wrapped) returned a new wrapper')
    if (!w1[main.kSymbolPrepareStackTrace]) v('wrap-not-marked', 'wrap', 'wrapped handler does not carry kSymbolPrepareStackTrace')
    // the ORIGINAL-map lookup knows nothing about a path that is not on disk: identity, no throw
    try { const r0 = main.getOriginalPathAndLineFromSourceMap(f.file, 3, 1); if (r0.path !== f.file || r0.line !== 3) v('unknown-file-changed', 'rewritten-not-on-disk', `getOriginalPathAndLineFromSourceMap(${f.file}, 3, 1) returned ${JSON.stringify(r0)}`) } catch (e) { v('lookup-threw', 'rewritten-not-on-disk', String(e.message).slice(0, 100)) }
  } else if (leaf.fam === 'history') {
    const config = cfgFor('c')
    const byVer = {}
    resps.forEach((r) => { byVer[r.id] = r })
    const rw = new main.Rewriter(config)
    const state = {} // file -> {runnable content, expectation}
    if (leaf.hist.includes('A5')) {
      if (!byVer.A1 || !byVer.A1.content) { v('setup', 'A5', 'A1 was not rewritten'); return res }
      const f5 = collisionFile(byVer.A1.content, VERSIONS.A1().file)
      byVer.A5 = await ctx.service.send({ config, file: f5.file, code: f5.code })
      if (byVer.A5.status !== 'ok' || byVer.A5.content) { v('setup', 'A5', 'the collision file is not a not-modified file'); return res }
      res.notes.collision_sites = f5.targets.length
    }
    leaf.hist.forEach((ver, i) => {
      const f = ver === 'A5' ? collision : VERSIONS[ver]()
      bridge.provide(config, f.code, f.file, byVer[ver])
      let out = null
      try { out = rw.rewrite(f.code, f.file) } catch (e) { if (ver !== 'Aerr') v('rewrite-threw', ver, `event ${i} (${ver}) threw ${String(e.message).slice(0, 80)}`) }
      if (out) {
        const modified = out.metrics && out.metrics.status === 'modified'
        const prev = state[f.file]
        state[f.file] = { content: out.content, f, modified, staleMapFrom: !modified && prev ? (prev.modified ? prev.ver : prev.staleMapFrom) : null, ver }
      }
      // invariant after EVERY event: every file loaded so far translates through the map of its most recent rewrite
      for (const file of Object.keys(state)) {
        const st = state[file]
        let ex
        try { ex = load(file, st.content) } catch (e) { v('content-does-not-load', 'load', String(e).slice(0, 120)); continue }
        const where = `after event ${i} of [${leaf.hist.join(',')}], file ${path.basename(file)} @${st.ver}`
        if (st.modified) judge(main, ex, st.f, { path: st.f.orig.path, path2: st.f.orig.path2, split: st.f.orig.split, shift: st.f.orig.shift, sites: st.f.sites, translate: true, decoded: decodedMapOf(st.content) }, v, where, res.notes)
        else {
          const sub = []
          judge(main, ex, st.f, { path: file, shift: 0, sites: st.f.sites, translate: false }, (rule, sig, detail) => sub.push({ rule, sig, detail }), where, res.notes)
          for (const s of sub) v(st.staleMapFrom ? 'stale-map-after-notmodified' : s.rule, st.staleMapFrom ? 'stale' : s.sig, (st.staleMapFrom ? `the most recent rewrite of ${path.basename(file)} was NOT modified, but lookups still go through the map cached for ${st.staleMapFrom}: ` : '') + s.detail)
        }
      }
    })
  } else {
    const dir = diskFixture()
    const p = leaf.pick
    const file = p.kind === 'nonexistent' ? path.join(dir, 'nope.js') : p.kind === 'directory' ? path.join(dir, 'directory') : path.join(dir, p.kind + '.js')
    let a = [file, 2, 1]
    if (p.args === 'line0') a = [file, 0, 1]
    if (p.args === 'line_undefined') a = [file, undefined, 1]
    if (p.args === 'column_undefined') a = [file, 2]
    if (p.args === 'line_beyond') a = [file, 5000, 1]
    if (p.args === 'filename_undefined') a = [undefined, 2, 1]
    if (p.args === 'filename_empty') a = ['', 2, 1]
    if (p.args === 'line_string') a = [file, '2', '1']
    let last
    for (let k = 0; k < p.repeat; k++) {
      let r
      try { r = main.getOriginalPathAndLineFromSourceMap(...a) } catch (e) { v('lookup-threw', p.kind + ':' + p.args, `getOriginalPathAndLineFromSourceMap(${JSON.stringify(a)}) threw ${String(e && e.message).slice(0, 100)}`); break }
      if (last && JSON.stringify(last) !== JSON.stringify(r)) v('lookup-not-repeatable', p.kind, `call ${k} returned ${JSON.stringify(r)}, before ${JSON.stringify(last)}`)
      last = r
    }
    if (last) {
      const hasMap = p.kind === 'inline' || p.kind === 'external' || p.kind === 'index_map' // the JS consumer supports index maps
      const mapped = hasMap && ['normal', 'column_undefined', 'line_string'].includes(p.args)
      if (mapped) {
        if (last.path !== path.join(dir, 'orig.ts') || Number(last.line) !== 22) v('disk-lookup-wrong', p.kind + ':' + p.args, `expected ${path.join(dir, 'orig.ts')}:22, got ${JSON.stringify(last)}`)
      } else if (!['line_beyond'].includes(p.args) || !hasMap) {
        if (last.path !== a[0] || last.line !== a[1]) v('unknown-file-changed', p.kind + ':' + p.args, `nothing is known about ${JSON.stringify(a[0])}, yet the lookup returned ${JSON.stringify(last)} for line ${JSON.stringify(a[1])}`)
      }
    }
    res.notes.lookups = p.repeat
  }
  if (res.violations.length) res.outcome = 'violation'
  res.sample = { leaf: leaf.key, lookups: res.notes.lookups }
  res.evaluations = res.notes.lookups || 1
  return res
}

module.exports = {
  id: 'C11',
  build,
  requests,
  check,
  inflight: 2,
  rule: 'leaf = (file body x layout x chained x comments) | (history of rewrite events on one caching rewriter, length <= h, alphabet {A v1, A v2 (other layout), B, A not-modified, A syntax error, A chained, A not-modified with throw sites at the very content positions of the rewritten A v1}) | (kind of on-disk file x argument shape x repetition for getOriginalPathAndLineFromSourceMap); every leaf throws every generator-known site with real V8 call sites, on both prepareStackTrace paths; non-trivial = all; distinct by leaf descriptor',
  explanation: 'breadth-first search over rewrite histories on the real CacheRewriter + exhaustive single-file and on-disk families; invariant after every event: every frame inside a rewritten file reports the original path and a generator-known original line (chained: the pre-transpilation file and line), frames of other files are byte-identical to V8\'s own rendering, nothing throws',
  assumptions: ['main.js, js/source-map and js/stack-trace are the real files; lru-cache and the wasm class are stand-ins (bridge.js)', 'only lines are judged, not columns', 'content is compiled with vm.compileFunction under the file name, in the main realm, so the handler under test is the one V8 consults']
}
