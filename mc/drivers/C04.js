'use strict'
// C04 — completeness: every enabled operation inside function bodies and blocks is instrumented.
const { mk } = require('../lib/static_driver')
const { summ } = require('../oracles/erase')

module.exports = mk({
  id: 'C04',
  families: ['B', 'A', 'C', 'G', 'M', 'S', 'T', 'H', 'Q', 'R', 'N', 'L', 'K'],
  // real library files: the same static oracle on syntax nobody wrote an expectation for
  corpus: { configs: ['FULL', 'RENAMED'], quickLimit: 60 },
  familyOpts: (tier) => ({ B: { ops: require('../grammar/families').REP_OPS.slice(0, tier === 'thorough' ? 12 : 10), k: tier === 'thorough' ? 3 : 2 } }),
  oracle ({ a, v, res }) {
    if (a.status !== 'ok' || a.inputUnparsable || a.contentUnparsable) return
    const required = a.reqs.filter((q) => q.must === 'REQUIRED')
    res.notes = { required_nodes: required.length, dontcare_nodes: a.reqs.filter((q) => q.must === 'DONTCARE').length, forbidden_nodes: a.reqs.filter((q) => q.must === 'FORBIDDEN').length, dontcare_but_hooked: a.reqs.filter((q) => q.must === 'DONTCARE' && q.hooked).length }
    res.nontrivial = required.length > 0
    if (a.modified && a.mismatches && a.mismatches.length) { res.notes.skipped_because_erasure_mismatch = 1; return } // C02's business; positions would be unreliable
    for (const q of required) {
      if (!q.hooked) v('missing-hook', `${q.kind} at ${q.anc.split('>').slice(-3).join('>')}`, `${q.kind} operation ${summ(q.node).slice(0, 80)} is enabled and sits in an instrumentable position (${q.anc}) but no hook wraps it` + (a.modified ? '' : ' (file reported not modified)'))
      else if (q.expected !== null && q.hooked.name !== q.expected) v('wrong-hook', q.kind, `${q.kind} operation ${summ(q.node).slice(0, 80)} is wrapped by _ddiast.${q.hooked.name}, expected _ddiast.${q.expected}`)
    }
  },
  bound: (tier) => ({ deviations_k: tier === 'thorough' ? 3 : 2, note: 'statement ctx x expression ctx full product for every representative operation (both are deviation dimensions and k>=2)' }),
  rule: 'leaf = program of families B (statement ctx x expression ctx x operation x scope x config, k deviations), A, C, G; non-trivial = the input contains at least one operation that must(node)=REQUIRED; distinct by (text, config)',
  explanation: 'explicit enumeration of placements; oracle = requirement function must() written from the property text, evaluated on every input node in lock-step with the annotated erasure of the output',
  assumptions: ['DONTCARE for every documented exclusion and for non-arrow parameter defaults (see DESIGN §3.4)']
})
