'use strict'
// C08 — every output is valid JavaScript of the same kind as the input.
const { mk } = require('../lib/static_driver')
const { enumerate, addStats } = require('../lib/explore')
const F = require('../grammar/families')
const { v8compile, trailerInfo } = require('../oracles/v8parse')
const C0 = require('../grammar/configs')

// grammar-sensitive surroundings (hole @@ takes an instrumentable operation)
const CONTEXTS = [
  'export default @@', 'export const v = @@', 'export default function () { return @@ }', 'export default class { m() { return @@ } }',
  'import d, * as ns from "m"; export { d as default }; export function f() { return ns.x + (@@) }', 'function f() { return import.meta }', 'export function f() { import.meta.x = @@ }',
  'class A extends B { constructor() { super(); this.x = @@ } m() { return super.m(@@) } static #p = 1; #q() { return @@ } get g() { return this.#q(@@) } set g(v) { this.#q(v + (@@)) } }',
  'function f() { return new.target ? @@ : 1 }', 'function f() { x = @@\n;[y] = [1] }', 'function f() { x = @@\n;(y) }', 'function f() { return @@ / 2 / 1 }', 'function f() { return a / (@@) /g }',
  'function f() { var let_ = @@ }', 'function f() { var let = 1; return let + (@@) }', 'function f() { var yield = 1, await = 2, async = 3, of = 4, get = 5, set = 6, static = 7; return yield + await + async + of + (@@) }',
  'function f() { for (const q of [@@]) {} }', 'function f() { for (x of @@) {} }', 'function f() { for (x in @@) {} }', 'function f() { for (var i = 0, j = @@; i < j; i++) {} }',
  'function f() { for (const q = (@@) in {}, r = 1; false;) {} }'.replace(' in {}, r = 1', ', r = 1'), 'function f() { for (var q = ("x" in o) + (@@); false;) {} }',
  'function* g() { yield* @@ }', 'function* g() { x = yield @@; y = (yield) + (@@) }', 'function* g() { yield\n@@ }', 'async function f() { for await (const q of @@) {} }', 'async function* g() { yield await @@ }',
  'function f() { if (a) function g() { return @@ } }', 'function f() { l1: l2: for (;;) { x = @@; continue l1 } }', 'function f() { a\n++\nb; return @@ }',
  'function f() { x = @@ // comment\n}', 'function f() { x = @@ /* c */ ; /* d */ }', 'function f() { x = @@\n<!-- html comment\n}', 'function f() { return (@@)\n`tpl` }',
  'function f() { var {a = @@, ...r} = o; var [b = @@, , ...s] = o }', 'function f(a = @@, {b = @@} = {}) { }', 'const f = async (a = @@) => a', 'function f() { return async () => { await @@ } }', 'function f() { return async x => @@ }', 'function f() { return async (x) => (await x) + (@@) }', 'function f() { return async x => await (@@) }', 'function f(n) { return n.map(async (x) => await x) + (@@) }', 'function* g() { const h = function* () { yield @@ }; return h }',
  'function f() { return { __proto__: @@, get [@@]() { return 1 }, async *[@@]() {}, "quoted-key": @@, 1: @@ } }', 'function f() { return class { static [@@] = @@; static { @@ } accessor = 1 } }',
  'function f() { return a ? @@ : b ? @@ : c }', 'function f() { return `${`${@@}`}` }', 'function f() { return a ?? (@@) }', 'function f() { return (a, @@) }', 'function f() { return ((@@)) }',
  'function f() { return -(@@) ** 2 }', 'function f() { return (@@) ** -(@@) }', 'function f() { return typeof @@ === "x" }', 'function f() { return !@@ }', 'function f() { return (@@)\n(1) }', 'function f() { return (@@)\n[1] }',
  'function f() { return (@@)?.[0]?.(1) }', 'function f() { return new (@@)(1) }', 'function f() { return new (@@) }', 'function f() { return new new X(@@)(@@) }', 'function f() { return (@@)`t` }', 'function f() { return (@@)\n++x }'.replace('\n++x', ', x++'),
  'function f() { return { ...(@@) } }', 'function f() { return [...(@@), , @@] }', 'function f() { return g(...(@@), ...[@@]) }', 'function f() { throw @@ }', 'function f() { do x = @@; while (0) }', 'function f() { if (a) x = @@\nelse y = @@ }',
  'function f() { switch (a) { case @@: case (@@): default: } }', 'function f() { try { } catch { x = @@ } }', 'function f() { return () => ({}).x + (@@) }', 'function f() { return () => { } }', 'function f() { var a = @@, b = @@\nvar c = @@ }',
  'function f() { return function* () { return @@ } }', 'function f() { return x => y => z => @@ }', 'function f() { return (x, y = @@) => { return x } }', 'function f() { debugger; with (o) { x = @@ } }', 'function f() { "use strict"; return @@ }',
  '"use strict"; function f() { return @@ }', '#!/usr/bin/env node\nfunction f() { return @@ }', 'function f() { return @@ }\nreturn f', 'if (require.main === module) { x = @@ }', '{ x = @@ }', 'x = @@', 'var f = function () { return @@ }()',
  '(function () { x = @@ })()', '(() => { x = @@ })()', '!function () { x = @@ }()', 'function f() { return a in (@@) }', 'function f() { return (@@) instanceof X }', 'function f() { return a < (@@) > b }', 'function f() { return void (@@), 0 }',
  'function f() { return 0, (@@) }', 'function f() { var s = "str"; return s + (@@) + /re\\/g/.source + 0x1f + 1_000 + 1n.toString() + .5 + 5..toString() }', 'function f() { return "\\u{1F600}" + \'\\n\\\'\' + `\\`${@@}\\`` }',
  'function f() { return a\n/* c */ + (@@) }', 'function f(){return@@}', 'function f() { return a+ +(@@) - -b }', 'function f() { return a++ + ++b + (@@) }', 'function f() { return a-- - --b - (@@) }'
]

// TIGHT: the operation sits BARE (no parentheses of its own) in a position whose grammar only takes a narrow
// expression class, so that whatever replaces it has to bring its own parentheses; inputs the parser refuses
// (`class extends a + b {}`) are counted as rejected, the rest must stay valid
const TIGHT_OPS = ['s.trim()', 's?.trim()', 'a?.b.concat(c)', 'f?.(x).trim()', 'a.b?.(x).concat(c)', 'a?.b?.concat(c)', 'o?.[k].trim()', '`${a}${f()}`', 'X.prototype.concat.call(a, f())', 'aloneMethod(a)', 'g().concat(f())', 'new X().concat(a)', 'a + f()', 'o.p += f()', 'a?.b.concat(c) + d', 'a?.b + f()']
const TIGHT_EXPR = ['a ?? @@', '@@ ?? a', 'a ?? @@ ?? b', 'a || @@', '@@ || a', 'a && @@', '@@ && a', 'new @@', 'new @@()', '@@`t`', '@@ ** 2', '2 ** @@', '-@@', '+@@', '~@@', 'typeof @@', 'void @@', 'delete @@', '@@.p', '@@[0]', '@@()', '@@?.p', '@@?.()', 'a ? @@ : b', '@@ ? a : b', 'a ? b : @@', 'a, @@', '@@, a', 'y = @@', 'y ??= @@', 'y ||= @@', '@@ in o', 'a in @@', '@@ instanceof X', 'a < @@', '@@ < a', 'a == @@', 'a + @@', '@@ + a', 'a - @@', '@@ - a', 'a * @@', '!@@', 'x => @@', 'async x => @@', '[@@]', '[...@@]', 'h(...@@)', '({p: @@})', '({...@@})', '`${@@}`', 'o[@@]', 'a?.[@@]', 'a?.(@@)', 'a?.b(@@)', 'y = z = @@', '@@ ? @@ : @@', 'a ?? @@ + b', 'a | @@', 'a ^ @@ & b']
const TIGHT_STMT = ['class K extends @@ {}', 'function f() { return class extends @@ {} }', 'function f() { for (x of @@) ; }', 'function f() { for (x in @@) ; }', 'function f() { for (x = @@; ;) break }', 'function f() { throw @@ }', 'function f() { if (@@) ; else ; }', 'function f() { while (@@) break }', 'function f() { do ; while (@@) }', 'function f() { switch (@@) { case @@: } }', 'function f() { with (@@) ; }', 'export default @@', 'async function f() { return await @@ }', 'async function f() { await @@ ?? a }', 'function* g() { yield @@ }', 'function* g() { yield* @@ }', 'function* g() { a ?? (yield @@) }', 'function f() { var {p = @@} = o }', 'function f(p = @@) {}', 'function f() { return { [@@]: 1 } }', 'function f() { return class { [@@]() {} static p = @@; q = @@ } }', 'function f() { lbl: @@ }', 'function f() { @@ }', 'function f() { @@\n;[a] }', 'function f() { a\n@@ }', 'function f() { return@@ }'.replace('return@@', 'return(@@)')]

const { lexicalTokens, LEX_PLACES } = F

module.exports = mk({
  id: 'C08',
  families: ['A', 'B', 'C', 'G', 'M', 'S', 'T', 'H', 'Q', 'R', 'N', 'L'],
  familyOpts: (tier) => ({ B: { k: tier === 'thorough' ? 3 : 2 } }),
  corpus: { configs: ['FULL', 'COMMENTS', 'METHODS_ONLY'], quickLimit: 80 },
  extra: async (tier) => {
    const ops = (tier === 'thorough' ? F.REP_OPS : F.REP_OPS_Q).map((o) => o.tpl)
    const r = enumerate([{ name: 'ctx', symbols: CONTEXTS, free: true }, { name: 'op', symbols: ops, free: true }, { name: 'config', symbols: ['FULL', 'COMMENTS'], free: true }], {})
    const leaves = r.leaves.map((l) => ({ fam: 'syntax', key: 'syn¦' + l.pick.ctx + '¦' + l.pick.op + '¦' + l.pick.config, code: l.pick.ctx.split('@@').join(l.pick.op), config: l.pick.config, desc: 'syntax ctx' }))
    const tight = TIGHT_EXPR.map((c) => 'function f() { return ' + c + ' }').concat(TIGHT_STMT)
    const tightOps = tier === 'thorough' ? TIGHT_OPS : TIGHT_OPS.slice(0, 10)
    for (const ctx of tight) for (const op of tightOps) for (const config of (tier === 'thorough' ? ['FULL', 'COMMENTS', 'METHODS_ONLY'] : ['FULL'])) {
      r.stats.states++; r.stats.transitions++
      leaves.push({ fam: 'tight', key: 'tight¦' + ctx + '¦' + op + '¦' + config, code: ctx.split('@@').join(op), config, desc: 'tight ctx' })
    }
    for (const tok of lexicalTokens(tier)) for (const place of LEX_PLACES) for (const config of ['FULL', 'COMMENTS']) {
      r.stats.states++; r.stats.transitions++
      leaves.push({ fam: 'lexical', key: 'lex¦' + place.length + place.slice(40, 60) + '¦' + tok + '¦' + config, code: place.split('@@').join(tok), config, desc: 'lexical token' })
    }
    // inputs that declare an original map of every kind, chaining on and off: whatever becomes of that map, the
    // content ends with exactly one decodable trailer
    {
      const b64 = (x) => Buffer.from(x, 'utf8').toString('base64')
      const REFS = { missing_file: 'not-shipped.js.map', valid: 'data:application/json;base64,' + b64(JSON.stringify({ version: 3, sources: ['o.ts'], names: [], mappings: 'AAAA;AACA;AACA' })), empty_mappings: 'data:application/json;base64,' + b64(JSON.stringify({ version: 3, sources: ['o.ts'], names: [], mappings: '' })), not_json: 'data:application/json;base64,' + b64('hello'), bad_base64: 'data:application/json;base64,@@@@', empty_url: '' }
      const BODIES = ['function f(a, b) { return a + b() }\n', "'use strict';\nfunction f(a) {\n  return a.trim()\n}\n", 'export function f(a) { return `${a}` }\n']
      for (const [rn, u] of Object.entries(REFS)) for (let bi = 0; bi < BODIES.length; bi++) for (const chain of [true, false]) for (const comments of [true, false]) for (const form of ['line', 'block']) {
        r.stats.states++; r.stats.transitions++
        const ref = form === 'line' ? '//# sourceMappingURL=' + u + '\n' : '/*# sourceMappingURL=' + u + ' */\n'
        leaves.push({ fam: 'mapref', key: ['mapref', rn, bi, chain, comments, form].join('¦'), code: BODIES[bi] + ref, config: Object.assign({}, C0.FULL, { chainSourceMap: chain, comments }), desc: 'mapref ' + rn })
      }
    }
    // inputs that mention identifiers with the reserved prefix: either refused, or the content must still load
    const e = require('./C06.js').familyE()
    for (const l of e.leaves) leaves.push(Object.assign({}, l, { fam: 'reserved', desc: 'reserved-name ' + l.place }))
    // option values that end up inside identifiers or names: every identifier-safe prefix, hook names with `$`,
    // non-ASCII letters and reserved words (member names may be reserved words)
    const C = require('../grammar/configs')
    const PREFIXES = [undefined, '', 'zz', '$', 'ñ', '1', '_', 'x'.repeat(300), 'Δ\u200d']
    const DSTS = ['$hook', 'ñame', 'default', 'class', 'constructor', 'a1']
    const progs = ['function f(a, b) { return a() + b().trim() + `${a()}` }', 'function f(o) { o.p += f() + 1; return o?.q.concat(f()) }']
    for (const pre of PREFIXES) for (const dst of [undefined].concat(DSTS)) for (let pi = 0; pi < progs.length; pi++) {
      const cfg = Object.assign({}, C.FULL)
      if (pre === undefined) delete cfg.localVarPrefix; else cfg.localVarPrefix = pre
      if (dst !== undefined) cfg.csiMethods = cfg.csiMethods.map((m) => Object.assign({}, m, { dst }))
      r.stats.states++; r.stats.transitions++
      leaves.push({ fam: 'names', key: 'names¦' + String(JSON.stringify(pre)).slice(0, 12) + '¦' + dst + '¦' + pi, code: progs[pi], config: cfg, desc: 'names prefix=' + String(JSON.stringify(pre)).slice(0, 12) + ' dst=' + dst })
    }
    // top-level bindings named like the helpers the prologue uses internally (they live inside its own function)
    for (const name of ['noop', 'globals', 'res', 'eval2']) {
      const decls = { var: `var ${name} = 1;`, let: `let ${name} = 1;`, const: `const ${name} = () => 1;`, function: `function ${name}() {}`, class: `class ${name} {}`, import: `import ${name} from './m.js';`, import_named: `import { ${name} } from './m.js';`, param: `function outer(${name}) { return ${name} }` }
      for (const [dk, d] of Object.entries(decls)) for (const cfgName of ['FULL', 'COMMENTS']) {
        const isMod = dk.startsWith('import')
        r.stats.states++; r.stats.transitions++
        leaves.push({ fam: 'helpers', key: 'helpers¦' + name + '¦' + dk + '¦' + cfgName, code: `${d}\n${isMod ? 'export ' : ''}function main(a, b) { return a + b + String(typeof ${name}) }\n`, config: cfgName, desc: 'helper-name ' + name + ' ' + dk })
      }
    }
    return { leaves, stats: addStats(r.stats, e.stats) }
  },
  requests (leaf) {
    const S = require('../lib/static_driver')
    return [{ config: S.leafConfig(leaf), file: S.leafFile(leaf), code: S.leafCode(leaf), want: ['parseIn', 'reparse'] }]
  },
  oracle ({ a, v, res, resp, code }) {
    if (resp.status !== 'ok') { res.outcome = 'rejected:' + resp.status; return }
    if (!resp.content) { res.outcome = 'notmodified'; return }
    const kind = resp.parseIn && resp.parseIn.kind
    if (!kind) { res.outcome = 'input-unparsable'; return }
    const inV8 = v8compile(code, kind)
    if (!inV8.ok) { res.outcome = 'input-invalid-for-v8'; res.notes = { input_rejected_by_v8: 1 }; return }
    res.nontrivial = true
    if (!resp.reparse || !resp.reparse.ok) v('content-rejected-by-own-parser', 'reparse', 'the rewriter\'s own parser rejects the content: ' + String(resp.reparse && (resp.reparse.error || resp.reparse.panic)).slice(0, 200))
    else if (resp.reparse.kind !== kind) v('kind-changed', kind + '->' + resp.reparse.kind, `input is a ${kind}, content parses as a ${resp.reparse.kind}`)
    const outV8 = v8compile(resp.content, kind)
    if (!outV8.ok) v('content-rejected-by-v8', outV8.error.split(':')[0] + ':' + outV8.error.split(':')[1].trim().split(' ').slice(0, 3).join(' '), `V8 rejects the content as a ${kind}: ${outV8.error}`)
    const t = trailerInfo(resp.content)
    if (t.count !== 1 && !/sourceMappingURL/.test(code)) v('trailer-count', String(t.count), `${t.count} sourceMappingURL comment lines in the content`)
    if (!t.isLast) v('trailer-not-last', 'pos', 'the source map trailer is not the last line: ' + t.lastLine.slice(0, 80))
    if (!t.map) v('trailer-undecodable', 'map', 'the trailer does not decode to JSON: ' + (t.mapError || t.lastLine.slice(0, 60)))
    else if (t.map.version !== 3) v('trailer-version', 'version', 'embedded map version is ' + t.map.version)
  },
  bound: (tier) => ({ deviations_k: tier === 'thorough' ? 3 : 2, syntax_contexts: CONTEXTS.length, corpus_files: tier === 'thorough' ? 'all' : 80 }),
  rule: 'leaf = program of families A,B,C,G, or grammar-sensitive context x operation x comments setting, tight positions (16 operations bare in 84 positions), lexical tokens (prefix x escape x suffix per literal kind x 4 places), reserved-name placements, prefix / replacement-name values, helper names, or corpus file x config; non-trivial = V8 accepts the input in the kind swc detected and the rewriter modified it; distinct by (text, config, file)',
  explanation: 'explicit enumeration + real library files; oracle = content re-parsed by the repo\'s own parser (same options, same kind) and compiled (not run) by V8 as module / CommonJS function body, trailer decoded',
  assumptions: ['V8 of Node 20 defines "Node itself can parse"; scripts are compiled the way Node loads CommonJS files (function wrapper), modules with vm.SourceTextModule']
})
