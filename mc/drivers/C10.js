'use strict'
// C10 — chained source map is the exact composition; trailer/comment handling is safe.
const { enumerate, addStats } = require('../lib/explore')
const C = require('../grammar/configs')
const SM = require('../oracles/srcmap')
const { trailerInfo } = require('../oracles/v8parse')

const b64 = (s) => Buffer.from(s, 'utf8').toString('base64')

const PROGRAMS = {
  one_hook: 'function main(a, b) {\n  return a + b\n}\n',
  temps_multiline: 'function main(a, b, o) {\n  const x = a +\n    b.trim() +\n    `${a}${o.p}`;\n  o.q.p += x;\n  return x?.concat(a,\n    b)\n}\n',
  two_functions: 'function first(a) { return a + 1 }\n\n\nfunction main(c, d) {\n  return c.concat(d)\n}\n',
  not_modified: 'function main(a, b) {\n  return a * b\n}\n'
}
// text that merely LOOKS like the comment (must never be altered)
const LOOKALIKES = {
  none: () => '',
  string: (u) => `const s1 = "# sourceMappingURL=${u}";\n`,
  string_with_slashes: (u) => `const s2 = '//# sourceMappingURL=${u}';\n`,
  template: (u) => `const s3 = \`//# sourceMappingURL=${u}\`;\n`,
  regex: (u) => `const s4 = /# sourceMappingURL=${u.replace(/[/.+*?()[\]\\]/g, '\\$&').slice(0, 40)}/;\n`,
  block_comment: (u) => `/* note: # sourceMappingURL=${u} */\nconst s5 = 1;\n`,
  line_comment_not_ref: (u) => `const s6 = 1; // see # sourceMappingURL=${u}\nconst s7 = 2;\n`
}

// ---- original maps over the intermediate file ------------------------------------------------------------
function tokenPositions (code) {
  const out = []
  const lines = code.split('\n')
  lines.forEach((line, l) => { const re = /[A-Za-z_$][\w$]*|[^\s\w]/g; let m; while ((m = re.exec(line))) out.push({ line: l, col: m.index, text: m[0] }) })
  return out
}
function buildOriginalMap (code, shape) {
  const toks = tokenPositions(code)
  const nsrc = shape.sources
  const sources = (shape.sourceNames || ['src/a.ts', 'src/b.ts', 'lib/c.ts']).slice(0, nsrc)
  const names = []
  const segs = []
  const keep = (t, i) => {
    if (shape.density === 'every_token') return true
    if (shape.density === 'one_per_line') return toks.findIndex((q) => q.line === t.line) === i
    if (shape.density === 'sparse') return t.line % 2 === 1 && toks.findIndex((q) => q.line === t.line) === i
    if (shape.density === 'first_line_empty') return t.line > 0
    if (shape.density === 'with_sourceless') return true
    if (shape.density === 'last_line_only') return t.line === toks[toks.length - 1].line
    if (shape.density === 'beyond') return i === 0
    return true
  }
  const nlines = code.split('\n').length
  const dev = new Map(shape.dev || [])
  toks.forEach((t, i) => {
    if (!keep(t, i)) return
    // per-token deviations from the dense map (family D)
    if (dev.get(i) === 'drop') return
    if (dev.get(i) === 'sourceless') { segs.push({ gl: t.line, gc: t.col }); return }
    const seg = { gl: t.line, gc: t.col, src: (t.line + i) % nsrc, ol: t.line * 2 + 3, oc: t.col + 5 }
    // a stale map whose only mapping lies after every position of the file: nothing resolves in it
    if (shape.density === 'beyond') seg.gl = nlines + 4
    if (shape.density === 'with_sourceless' && i % 5 === 4) { segs.push({ gl: t.line, gc: t.col }); return }
    if (dev.get(i) === 'other_source') { seg.src = (seg.src + 1) % nsrc; seg.ol += 100 }
    if (dev.get(i) === 'col_plus_one') seg.gc += 1
    if (dev.get(i) === 'named') { let ni = names.indexOf('dev_' + i); if (ni < 0) { ni = names.length; names.push('dev_' + i) } seg.name = ni }
    if (shape.names && /^[A-Za-z_$]/.test(t.text)) { let ni = names.indexOf('orig_' + t.text); if (ni < 0) { ni = names.length; names.push('orig_' + t.text) } seg.name = ni }
    segs.push(seg)
  })
  return SM.encodeMap({ sources, names, segments: segs, file: 'gen.js', sourceRoot: shape.sourceRoot, sourcesContent: shape.sourcesContent ? sources.map((s) => '// ' + s) : undefined })
}
const MAP_SHAPES = []
for (const density of ['every_token', 'one_per_line', 'sparse', 'first_line_empty', 'with_sourceless']) for (const sources of [1, 3]) for (const names of [false, true]) MAP_SHAPES.push({ density, sources, names })
MAP_SHAPES.push({ density: 'every_token', sources: 2, names: true, sourceRoot: '../root' })
MAP_SHAPES.push({ density: 'one_per_line', sources: 1, names: false, sourceRoot: 'webpack://app/' })
MAP_SHAPES.push({ density: 'every_token', sources: 1, names: false, sourceRoot: '' })
MAP_SHAPES.push({ density: 'every_token', sources: 1, names: false, sourceRoot: '/abs/root' })
MAP_SHAPES.push({ density: 'sparse', sources: 2, names: true, sourcesContent: true })
// source names and symbol names with non-ASCII text, queries, spaces: the JSON then holds bytes that the two base64
// alphabets encode differently
MAP_SHAPES.push({ density: 'every_token', sources: 3, names: true, sourceNames: ['src/café/例え.ts', 'webpack://app/./src/autil.ts?4f2a', '~/lib/x y.ts'] })
MAP_SHAPES.push({ density: 'one_per_line', sources: 2, names: false, sourceNames: ['>>>?~.ts', 'ñ'], sourceRoot: 'rôot/' })
MAP_SHAPES.push({ density: 'last_line_only', sources: 1, names: false })
MAP_SHAPES.push({ density: 'beyond', sources: 1, names: false })
MAP_SHAPES.push({ density: 'beyond', sources: 1, names: true, sourceRoot: 'webpack://app/' })

// ---- reference kinds ---------------------------------------------------------------------------------------
// each: url (text after `# sourceMappingURL=`), how it is written, what the reader answers, whether M is usable
const FILE = '/p/dir/gen.js'
const REFS = {
  inline: { url: (m) => 'data:application/json;base64,' + b64(m), usable: true },
  inline_charset: { url: (m) => 'data:application/json;charset=utf-8;base64,' + b64(m), usable: true },
  inline_charset_more_params: { url: (m) => 'data:application/json;charset=utf-8;name=gen.js.map;base64,' + b64(m), usable: true },
  inline_charset_upper: { url: (m) => 'data:application/json;CHARSET=UTF-8;base64,' + b64(m), usable: true },
  relative: { url: () => 'gen.js.map', path: '/p/dir/gen.js.map', answer: 'map', usable: true },
  dot_relative: { url: () => './maps/gen.js.map', path: '/p/dir/./maps/gen.js.map', answer: 'map', usable: true },
  up_relative: { url: () => '../gen.js.map', path: '/p/dir/../gen.js.map', answer: 'map', usable: true },
  absolute: { url: () => '/m/gen.js.map', path: '/m/gen.js.map', answer: 'map', usable: true },
  missing: { url: () => 'gen.js.map', path: '/p/dir/gen.js.map', answer: 'notfound', usable: false },
  directory: { url: () => 'gen.js.map', path: '/p/dir/gen.js.map', answer: 'isdir', usable: false },
  denied: { url: () => 'gen.js.map', path: '/p/dir/gen.js.map', answer: 'denied', usable: false },
  empty_file: { url: () => 'gen.js.map', path: '/p/dir/gen.js.map', answer: 'empty', usable: false },
  malformed: { url: () => 'gen.js.map', path: '/p/dir/gen.js.map', answer: 'malformed', usable: false },
  not_a_map: { url: () => 'gen.js.map', path: '/p/dir/gen.js.map', answer: 'notamap', usable: false },
  index_map: { url: () => 'gen.js.map', path: '/p/dir/gen.js.map', answer: 'index', usable: false },
  bad_base64: { url: () => 'data:application/json;base64,@@@=', usable: false, readsAllowed: true },
  no_comment: { url: null, usable: false },
  block_form: { url: () => 'gen.js.map', path: '/p/dir/gen.js.map', answer: 'map', usable: true, block: true },
  two_comments: { url: () => 'gen.js.map', path: '/p/dir/gen.js.map', answer: 'map', usable: true, two: true },
  // the LAST comment is the effective one: an earlier usable comment must not leak through an unusable last one
  first_usable_last_missing: { url: () => 'gen.js.map', path: '/p/dir/gen.js.map', answer: 'notfound', usable: false, before: 'inline' },
  first_usable_last_bad_b64: { url: () => 'data:application/json;base64,@@@=', usable: false, readsAllowed: true, before: 'inline' },
  first_usable_last_index_map: { url: () => 'gen.js.map', path: '/p/dir/gen.js.map', answer: 'index', usable: false, before: 'inline' },
  first_wrong_last_usable: { url: () => 'gen.js.map', path: '/p/dir/gen.js.map', answer: 'map', usable: true, before: 'wrong' },
  mid_usable_last_missing: { url: () => 'gen.js.map', path: '/p/dir/gen.js.map', answer: 'notfound', usable: false, two: 'inline' }
}
const WRONG_MAP = JSON.stringify(SM.encodeMap({ sources: ['WRONG.ts'], names: [], segments: [{ gl: 0, gc: 0, src: 0, ol: 99, oc: 9 }, { gl: 1, gc: 0, src: 0, ol: 98, oc: 8 }] }))

function refComment (ref, mapText) {
  if (!ref.url) return ''
  const u = ref.url(mapText)
  return ref.block ? `/*# sourceMappingURL=${u} */\n` : `//# sourceMappingURL=${u}\n`
}

// ---- generated sequences of reference comments (family E): the LAST one decides, whatever came before ----------
const SEQ_KINDS = {
  inlineA: { usable: true, map: 'A', text: (m) => '//# sourceMappingURL=data:application/json;base64,' + b64(m) },
  inlineWrong: { usable: true, map: 'W', text: () => '//# sourceMappingURL=data:application/json;base64,' + b64(WRONG_MAP) },
  fileA: { usable: true, map: 'A', path: '/p/dir/gen.js.map', text: () => '//# sourceMappingURL=gen.js.map' },
  missing: { usable: false, path: '/p/dir/nowhere.js.map', text: () => '//# sourceMappingURL=nowhere.js.map' },
  badB64: { usable: false, text: () => '//# sourceMappingURL=data:application/json;base64,@@@=' },
  blockA: { usable: true, map: 'A', text: (m) => '/*# sourceMappingURL=data:application/json;base64,' + b64(m) + ' */' },
  plain: { notRef: true, text: () => '// just a comment' }
}
function makeSeqInput (pick) {
  const shape = MAP_SHAPES[pick.shape]
  // code between two comments keeps the earlier one attached to an earlier token
  const parts = pick.seq.map((x) => x.split('|'))
  let body = PROGRAMS[pick.prog]
  const extra = parts.filter((p) => p[1] === 'code').length
  for (let i = 0; i < extra; i++) body += `function tail${i}(q) { return q + ${i} }\n`
  const mapObj = buildOriginalMap(body, shape)
  const mapText = JSON.stringify(mapObj)
  // lay the text out: comments go after the main program; `code` separators put a tail function before the comment
  let code = PROGRAMS[pick.prog]
  let t = 0
  let last = null
  for (const [kind, sep] of parts) {
    if (sep === 'code') code += `function tail${t++}(q) { return q + ${t - 1} }\n`
    code += SEQ_KINDS[kind].text(mapText) + '\n'
    if (!SEQ_KINDS[kind].notRef) last = SEQ_KINDS[kind]
  }
  // tail functions declared but the map was built over `body` (program + all tails in order): same text order
  const vfs = { '/p/dir/gen.js.map': { kind: 'text', text: mapText }, '/p/dir/nowhere.js.map': { kind: 'notfound' } }
  const ref = { url: last ? () => 'x' : null, usable: !!(last && last.usable), path: last && last.path, seq: true, readsAllowed: true, effective: last }
  return { code, body: code.split('\n').filter((l) => !/sourceMappingURL=|just a comment/.test(l)).join('\n') + '\n', comment: '', mapObj: last && last.map === 'W' ? JSON.parse(WRONG_MAP) : mapObj, vfs, ref }
}

function makeLeafInput (pick) {
  if (pick.seq) return makeSeqInput(pick)
  const ref = REFS[pick.ref]
  const shape = pick.shapeObj || MAP_SHAPES[pick.shape]
  const urlForLook = ref.url ? (ref.url('{}').length > 60 ? 'gen.js.map' : ref.url('{}')) : 'gen.js.map'
  let body = LOOKALIKES[pick.look](ref.url && !/^data:/.test(ref.url('{}')) ? ref.url('{}') : urlForLook) + PROGRAMS[pick.prog]
  if (ref.two === true) body = body.replace('\n', ' //# sourceMappingURL=other.js.map\n')
  if (ref.two === 'inline') body = body.replace('\n', ' //# sourceMappingURL=data:application/json;base64,' + b64(WRONG_MAP) + '\n')
  const mapObj = buildOriginalMap(body, shape)
  const mapText = JSON.stringify(mapObj)
  let comment = refComment(ref, mapText)
  // a superseded comment on the line just before the effective one (both trail the last token)
  if (ref.before) comment = '//# sourceMappingURL=data:application/json;base64,' + b64(ref.before === 'wrong' ? WRONG_MAP : mapText) + '\n' + comment
  const code = body + comment
  const vfs = {}
  if (ref.path) {
    const answers = { map: { kind: 'text', text: mapText }, notfound: { kind: 'notfound' }, isdir: { kind: 'isdir' }, denied: { kind: 'denied' }, empty: { kind: 'text', text: '' }, malformed: { kind: 'text', text: mapText.slice(0, mapText.length / 2) }, notamap: { kind: 'text', text: '{"hello":1}' }, index: { kind: 'text', text: JSON.stringify({ version: 3, sections: [{ offset: { line: 0, column: 0 }, map: mapObj }] }) } }
    vfs[ref.path] = answers[ref.answer]
    if (ref.two) vfs['/p/dir/other.js.map'] = { kind: 'text', text: WRONG_MAP }
  }
  return { code, body, comment, mapObj, vfs, ref }
}

async function build (tier) {
  const dims = [
    { name: 'prog', symbols: Object.keys(PROGRAMS) },
    { name: 'ref', symbols: Object.keys(REFS), free: true },
    { name: 'shape', symbols: MAP_SHAPES.map((_, i) => i) },
    { name: 'chain', symbols: [true, false], free: true },
    { name: 'comments', symbols: [true, false], free: true },
    { name: 'look', symbols: Object.keys(LOOKALIKES) }
  ]
  const r = enumerate(dims, { k: tier === 'thorough' ? 3 : 2 })
  const leaves = r.leaves.map((l) => ({ key: [l.pick.prog, l.pick.ref, l.pick.shape, l.pick.chain, l.pick.comments, l.pick.look].join('¦'), pick: l.pick }))
  // family E: every sequence of 1..n trailing comments (six reference kinds + an ordinary comment), each either right
  // after the previous one or after more code, x chain x comments
  {
    const n = tier === 'thorough' ? 3 : 2
    const syms = []
    for (const k of Object.keys(SEQ_KINDS)) for (const sep of ['nl', 'code']) syms.push(k + '|' + sep)
    const rec = (seq) => {
      r.stats.states++
      // a reference that is followed by more code is not judged (assumption below): the last reference of the
      // sequence must come after the last piece of code
      const lastRef = seq.map((x) => !SEQ_KINDS[x.split('|')[0]].notRef).lastIndexOf(true)
      const lastCode = seq.map((x) => x.split('|')[1] === 'code').lastIndexOf(true)
      if (seq.length && lastRef >= 0 && lastRef >= lastCode) {
        for (const chain of [true, false]) for (const comments of [true, false]) { leaves.push({ key: 'E¦' + seq.join(',') + '¦' + chain + '¦' + comments, pick: { prog: 'one_hook', seq, shape: 0, chain, comments, look: 'none' } }); r.stats.leaves++ }
      }
      if (seq.length === n) return
      for (const x of syms) { r.stats.transitions++; rec(seq.concat([x])) }
    }
    rec([])
  }
  // family D: the dense two-source map with up to kd of its tokens dropped / made source-less / re-targeted /
  // moved by one column / named — every subset of <= kd tokens x every combination of those changes
  const kd = tier === 'thorough' ? 3 : 2
  const OPS = ['drop', 'sourceless', 'other_source', 'col_plus_one', 'named']
  for (const prog of tier === 'thorough' ? ['one_hook', 'two_functions'] : ['one_hook']) {
    const tp = tokenPositions(PROGRAMS[prog])
    const n = tp.length
    // moving a token onto the position of its neighbour would give two entries for one generated position
    // (an ambiguous map): not generated
    const adjacent = (i) => tp.some((q) => q.line === tp[i].line && q.col === tp[i].col + 1)
    const rec = (start, devs) => {
      r.stats.states++
      if (devs.length) { leaves.push({ key: 'D¦' + prog + '¦' + devs.map((d) => d.join(':')).join(','), pick: { prog, ref: 'inline', shapeObj: { density: 'every_token', sources: 2, names: false, dev: devs }, chain: true, comments: false, look: 'none' } }); r.stats.leaves++ }
      if (devs.length === kd) return
      for (let i = start; i < n; i++) for (const op of OPS) { if (op === 'col_plus_one' && adjacent(i)) continue; r.stats.transitions++; rec(i + 1, devs.concat([[i, op]])) }
    }
    rec(0, [])
  }
  return { leaves, stats: r.stats, bound: { map_token_deviations_kd: tier === 'thorough' ? 3 : 2, deviations_k_over_program_mapshape_lookalike: tier === 'thorough' ? 3 : 2, refs: Object.keys(REFS).length, map_shapes: MAP_SHAPES.length }, alphabets: { programs: Object.keys(PROGRAMS), refs: Object.keys(REFS), map_shapes: MAP_SHAPES, lookalikes: Object.keys(LOOKALIKES) } }
}

function cfg (pick, chain) { return Object.assign({}, C.FULL, { chainSourceMap: chain, comments: pick.comments }) }

function requests (leaf) {
  const inp = makeLeafInput(leaf.pick)
  return [
    { config: cfg(leaf.pick, leaf.pick.chain), file: FILE, code: inp.code, vfs: inp.vfs },
    { config: cfg(leaf.pick, false), file: FILE, code: inp.code, vfs: inp.vfs },
    { config: cfg(leaf.pick, false), file: FILE, code: inp.body, vfs: {} }
  ]
}

function stripTrailer (content) {
  const i = content.lastIndexOf('\n//# sourceMappingURL=data:application/json;base64,')
  return i < 0 ? content : content.slice(0, i)
}
// an emptied `//` or `/**/` remnant of the removed comment is tolerated; white space is not compared
// (the remnant may leave a line break behind)
function normRemnants (s) {
  return s.replace(/\/\*\s*\*\//g, '').split('\n').map((l) => l.replace(/[ \t]*\/\/[ \t]*$/, '')).join('\n').replace(/\s+/g, '')
}

async function check (leaf, resps) {
  const pick = leaf.pick
  const inp = makeLeafInput(pick)
  const [r, rPlain, rNoRef] = resps
  const res = { nontrivial: false, outcome: 'ok', violations: [], distinctKey: inp.code + '|' + pick.chain + pick.comments }
  const v = (rule, sig, detail) => res.violations.push({ rule, sig, detail: detail + '\n  leaf: ' + leaf.key })
  if (r.status !== 'ok' || rPlain.status !== 'ok' || rNoRef.status !== 'ok') { v('rewrite-failed', r.status, 'a call failed: ' + String(r.error || rPlain.error || rNoRef.error).slice(0, 160)); return res }
  if (!r.content) {
    res.outcome = 'notmodified'
    if (rPlain.content || rNoRef.content) v('modified-depends-on-map', 'status', 'modified status differs between variants of the same program')
    return res
  }
  res.nontrivial = true
  // --- trailer ---
  const t = trailerInfo(r.content); const tPlain = trailerInfo(rPlain.content)
  if (!t.isLast || !t.map) { v('trailer-missing', 'trailer', 'content does not end with a decodable inline trailer: ' + t.lastLine.slice(0, 60)); return res }
  const inlineTrailers = r.content.split('\n').filter((l) => l.startsWith('//# sourceMappingURL=data:application/json;base64,') && l === t.lastLine).length
  if (inlineTrailers !== 1) v('trailer-duplicated', String(inlineTrailers), 'the emitted trailer appears ' + inlineTrailers + ' times')
  // --- which map must it be? ---
  const expectChained = pick.chain && inp.ref.usable
  let R, T
  try { R = SM.decodeMap(tPlain.map); T = SM.decodeMap(t.map) } catch (e) { v('map-undecodable', 'vlq', e.message); return res }
  if (!expectChained) {
    if (JSON.stringify(t.map) !== JSON.stringify(tPlain.map)) v('fallback-map-differs', pick.chain ? 'unusable-original' : 'chain-off', `no usable original map (or chaining off) but the trailer is not the plain rewrite map (sources ${JSON.stringify(t.map.sources)})`)
    res.outcome = pick.chain ? 'fallback' : 'plain'
  } else {
    res.outcome = 'chained'
    const M = SM.decodeMap(inp.mapObj)
    // several entries may share one generated position: compare them in order, position by position
    const tIndex = new Map()
    for (const q of T.segments) { const k = q.gl + ':' + q.gc; if (!tIndex.has(k)) tIndex.set(k, []); tIndex.get(k).push(q) }
    const taken = new Map()
    let defined = 0
    for (const s of R.segments) {
      if (s.src === undefined) continue
      const m = SM.lookup(M, s.ol, s.oc)
      const k = s.gl + ':' + s.gc
      if (!m) continue
      defined++
      // identical entries at one position collapse into one
      const sigM = m.src + ':' + m.ol + ':' + m.oc + ':' + m.name
      const seen = (taken.get(k + '#sigs') || [])
      if (seen.includes(sigM)) continue
      seen.push(sigM); taken.set(k + '#sigs', seen)
      const idx = taken.get(k) || 0
      taken.set(k, idx + 1)
      const got = (tIndex.get(k) || [])[idx]
      if (!got) { v('chained-segment-missing', 'missing', `content ${s.gl}:${s.gc} -> intermediate ${s.ol}:${s.oc} -> original ${m.ol}:${m.oc} is defined but the chained map has no entry there`); break }
      const expSrc = m.src === undefined ? null : SM.resolveSource(inp.mapObj, m.src)
      const gotSrc = got.src === undefined ? null : SM.resolveSource(t.map, got.src)
      const expName = m.name === undefined ? null : inp.mapObj.names[m.name]
      const gotName = got.name === undefined ? null : t.map.names[got.name]
      if (expSrc !== gotSrc) { v('chained-wrong-source', 'source', `content ${s.gl}:${s.gc}: composition gives source ${expSrc}, chained map says ${gotSrc}`); break }
      if (m.src !== undefined && (got.ol !== m.ol || got.oc !== m.oc)) { v('chained-wrong-position', got.ol !== m.ol ? 'line' : 'column', `content ${s.gl}:${s.gc}: composition gives ${m.ol}:${m.oc}, chained map says ${got.ol}:${got.oc}`); break }
      if (expName !== gotName) { v('chained-wrong-name', 'name', `content ${s.gl}:${s.gc}: composition gives name ${expName}, chained map says ${gotName}`); break }
    }
    for (const [k, list0] of tIndex) { const list = list0.filter((q, i) => list0.findIndex((z) => z.src === q.src && z.ol === q.ol && z.oc === q.oc && z.name === q.name) === i); if (list.length > (taken.get(k) || 0)) { v('chained-segment-extra', 'extra', `chained map has ${list.length} entr(ies) at ${k}, the composition defines ${taken.get(k) || 0}`); break } }
    res.notes = { composed_segments: defined }
    // the reader was asked for exactly the resolved path
    if (inp.ref.path && !(r.reads || []).includes(inp.ref.path)) v('reader-path', 'path', `reader asked for ${JSON.stringify(r.reads)}, expected ${inp.ref.path}`)
  }
  if (!inp.ref.path && !inp.ref.readsAllowed && (r.reads || []).length) v('reader-unexpected-read', 'read', `reader asked for ${JSON.stringify(r.reads)} although the reference is inline / absent`)
  // --- nothing else of the program is altered ---
  const body = stripTrailer(r.content); const ref = stripTrailer(rNoRef.content)
  if (!inp.ref.two && !inp.ref.before && !inp.ref.seq && normRemnants(body) !== normRemnants(ref)) {
    const a = normRemnants(body); const b = normRemnants(ref); let i = 0; while (i < a.length && a[i] === b[i]) i++
    v('program-text-altered', pick.look === 'none' ? 'plain' : 'lookalike:' + pick.look, `content (minus trailer and removed comment) differs from the content of the same program without the reference comment at char ${i}: …${JSON.stringify(a.slice(Math.max(0, i - 40), i + 60))} vs …${JSON.stringify(b.slice(Math.max(0, i - 40), i + 60))}`)
  }
  // with comments kept, the superseded end-of-file comment must be gone
  if (pick.comments && inp.ref.url && !inp.ref.two && !inp.ref.before && !inp.ref.seq) {
    const old = inp.comment.trim().replace(/^\/\/|^\/\*|\*\/$/g, '').trim()
    if (body.includes(old) && !LOOKALIKES[pick.look]('x').length) v('old-comment-survives', inp.ref.block ? 'block' : 'line', 'the superseded sourceMappingURL comment is still present in the content')
  }
  // generated sequences with comments kept: the effective (last) reference is gone, every other comment of the
  // input - earlier references and ordinary comments - is still there, once
  if (pick.seq && pick.comments) {
    const kinds = pick.seq.map((x) => x.split('|')[0])
    const lastRef = kinds.map((k) => !SEQ_KINDS[k].notRef).lastIndexOf(true)
    const count = (re) => (body.match(re) || []).length
    const wantRefs = kinds.filter((k, i) => !SEQ_KINDS[k].notRef && i !== lastRef).length
    const gotRefs = count(/sourceMappingURL=/g)
    if (gotRefs !== wantRefs) v('reference-comments-kept', gotRefs > wantRefs ? 'too-many' : 'too-few', `content (minus trailer) holds ${gotRefs} sourceMappingURL comment(s); of the ${wantRefs + 1} of the input only the last, superseded one must go`)
    const wantPlain = kinds.filter((k) => k === 'plain').length
    const gotPlain = count(/just a comment/g)
    if (gotPlain !== wantPlain) v('ordinary-comment-lost', gotPlain > wantPlain ? 'duplicated' : 'lost', `content holds ${gotPlain} ordinary comment(s), the input has ${wantPlain}`)
  }
  if (res.violations.length) res.outcome = 'violation'
  res.sample = { leaf: leaf.key, outcome: res.outcome }
  return res
}

module.exports = {
  id: 'C10',
  build,
  requests,
  check,
  rule: 'leaf = program x reference kind (17: inline / relative / ./ / ../ / absolute / missing / directory / denied / empty / malformed / not-a-map / index map / bad base64 / none / block form / two comments) x original-map shape (30: density, 1-3 sources, names, sourceRoot, sourcesContent, source-less segments, last line only, nothing resolves) x chain x comments x look-alike text, k deviations among program/shape/look-alike; plus family E: every sequence of 1-2 (3) trailing comments over six reference kinds and an ordinary comment, adjacent or separated by code, x chain x comments (the last reference decides); plus family D: the dense map with every subset of <= kd tokens dropped / source-less / re-targeted / shifted / named; each leaf = three real calls (as configured, chaining off, without the reference comment); non-trivial = modified; distinct by (input text, chain, comments)',
  explanation: 'explicit enumeration of reference kinds, reader answers and map shapes; oracle = independent two-step composition (rewrite map from the chaining-off call, generator-built original map, global greatest-lower-bound, sourceRoot resolution) compared entry by entry with the decoded trailer; fallback must equal the plain rewrite map; content minus trailer must be byte-identical (up to an emptied comment remnant) to the content of the same program without the reference',
  assumptions: ['original maps are synthetic (any valid map must compose)', 'an emptied `//` or `/**/` remnant of the removed comment is tolerated', 'a sourceMappingURL comment that is followed by more code is not judged (only the end-of-file comment is the superseded one)']
}
