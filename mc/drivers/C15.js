'use strict'
// C15 — reported propagation metrics equal the instrumentation actually emitted.
const { mk } = require('../lib/static_driver')
const { tagOf } = require('../oracles/analyse')
const C = require('../grammar/configs')
const { enumerate } = require('../lib/explore')

const STMTS = {
  hooked_plus: 'x = a + b;',
  literal_plus: "y = 'a' + 'b';",
  num_plus: 'y = 1 + 2;',
  hooked_call: 'x = a.trim();',
  unconfigured_call: 'y = a.toUpperCase();',
  plus_assign_num: 'i += 1;',
  chain_hooked: 'x = s?.trim();',
  chain_plain: 'y = o?.q;',
  chain_proto: 'y = o?.prototype.trim();',
  tpl_literal: 'y = `${1}${a}`;',
  tpl_hooked: 'x = `${a}!`;',
  arrow_expr: 'y = () => 1;',
  plain_call: 'h(a);',
  nested: 'x = a.concat(b + c, `${a}`);',
  triple_plus: 'x = a + b + c + a;',
  triple_trim: 'x = a.trim().trim().trim();',
  triple_plus_assign: 'x += a; x += b; x += c;',
  four_tpl: 'x = `${a}` + `${b}${c}` + `${`${a}`}`;',
  proto_call: 'x = String.prototype.concat.call(a, b);',
  proto_spread_this: 'x = String.prototype.concat.call(...[a, b]);',
  proto_apply: 'x = String.prototype.substring.apply(a, [1, i]);',
  bare_call: 'x = aloneMethod(a);',
  member_plus_assign: 'o.p += a;',
  chain_with_args: 'x = s?.concat(a)?.substring(1);'
}
// (only in the configuration lattice below, not in the permutations)
const LATTICE_STMTS = {
  tpl_of_sums: 'x = `${a + b}${b + c}`;',
  call_of_sum: 'x = a.concat(b + c);',
  bare_of_sum: 'x = aloneMethod(a + b);',
  call_of_literal_plus_call: "x = a.concat('id=' + b.trim());",
  tpl_of_literal_plus_call: "x = `-${'id=' + b.trim()}-`;",
  call_of_call_plus_literal: "x = a.concat(b.trim() + '!', c);",
  tpl_without_substitution: 'y = `text`;'
}
const VERBOSITIES = [undefined, 'OFF', 'MANDATORY', 'INFORMATION', 'DEBUG', 'debug']

module.exports = mk({
  id: 'C15',
  thoroughWorkers: 12,
  thoroughHeapMB: 5000,
  families: ['A', 'C', 'M', 'S', 'T', 'H', 'Q', 'R', 'N', 'L'],
  familyOpts: () => ({}),
  // the grammar families are judged under DEBUG verbosity (per-tag breakdown is the richer oracle) and with
  // every hook renamed (a tag is the SOURCE name of the operation, never the hook's)
  configOf (leaf) {
    if (leaf.fam === 'perm') return leaf.config
    const base = require('../lib/static_driver').leafConfig(leaf)
    return Object.assign({}, base === C.FULL ? C.RENAMED : base, { telemetryVerbosity: 'DEBUG' })
  },
  extra: async (tier) => {
    // all ordered selections of L statements (permutations without repetition) x verbosity
    const names = Object.keys(STMTS)
    const L = tier === 'thorough' ? 4 : 3
    const dims = []
    for (let i = 0; i < L; i++) dims.push({ name: 's' + i, symbols: names, free: true })
    // (the remaining spellings are covered by the spelling family below; six verbosities made the thorough list 5.7 million
    // leaves, which every worker has to hold)
    dims.push({ name: 'verb', symbols: [undefined, 'OFF', 'MANDATORY', 'DEBUG'], free: true })
    dims.push({ name: 'cfg', symbols: ['FULL', 'RENAMED'] })
    dims.push({ name: 'file', symbols: tier === 'thorough' ? ['/p/app.js', 'rel/x.js'] : ['/p/app.js'] })
    const r = enumerate(dims, { k: 1, valid: (cur, i) => { if (i < L) for (let j = 0; j < i; j++) if (cur['s' + j] === cur['s' + i]) return false; return true } })
    const leaves = r.leaves.map((l) => {
      const body = []
      for (let i = 0; i < L; i++) body.push(STMTS[l.pick['s' + i]])
      const cfg = Object.assign({}, C[l.pick.cfg])
      if (l.pick.verb !== undefined) cfg.telemetryVerbosity = l.pick.verb
      return { fam: 'perm', key: 'perm¦' + body.join('') + '¦' + l.pick.verb + '¦' + l.pick.cfg + '¦' + l.pick.file, code: `function main(a, b, c, s, o, h) { let x, y, i = 0; ${body.join(' ')} return x }`, config: cfg, file: l.pick.file, desc: 'perm' }
    })
    // the file name reported by the metrics: a few programs x several names x verbosity
    for (const file of ['/p/app.js', 'rel/x.js', 'x.js', '/p/my file ñ.js', '<anonymous>', './a.js', './lib/a.js', '././a.js', '../x.js', 'a/../b.js', '/p//double.js', 'C:\\x\\y.js', 'file:///p/a.js', ' lead.js', 'trail.js ', '/p/UPPER.JS', '/p/a.mjs', '/p/noext', '/p/a.js?x=1#h', '.hidden.js']) for (const verb of [undefined, 'OFF', 'DEBUG']) for (const st of ['hooked_plus', 'num_plus', 'nested']) {
      const cfg = Object.assign({}, C.FULL); if (verb !== undefined) cfg.telemetryVerbosity = verb
      r.stats.states++; r.stats.transitions++
      leaves.push({ fam: 'perm', key: 'file¦' + st + '¦' + verb + '¦' + file, code: `function main(a, b, c, s, o, h) { let x, y, i = 0; ${STMTS[st]} return x }`, config: cfg, file, desc: 'file' })
    }
    // the verbosity is a string option read case-insensitively: every spelling selects the same implementation
    for (const verb of ['off', 'Off', 'oFF', 'debug', 'Debug', 'mandatory', 'Mandatory', 'information', 'Information']) for (const st of ['hooked_plus', 'num_plus', 'nested']) for (const cfgName of ['FULL', 'RENAMED']) {
      const cfg = Object.assign({}, C[cfgName], { telemetryVerbosity: verb })
      r.stats.states++; r.stats.transitions++
      leaves.push({ fam: 'perm', key: 'spelling¦' + st + '¦' + verb + '¦' + cfgName, code: `function main(a, b, c, s, o, h) { let x, y, i = 0; ${STMTS[st]} return x }`, config: cfg, file: '/p/app.js', desc: 'spelling ' + verb })
    }
    // the lattice of operation sets: every statement alone and next to a hooked one, under every configuration
    // that enables only part of the operations (an operation that is inspected, left alone, and whose operands
    // are not collected is the case the counters get wrong)
    const LS = Object.assign({}, STMTS, LATTICE_STMTS)
    for (const st of Object.keys(LS)) for (const cfgName of ['PLUS_ONLY', 'TPL_ONLY', 'METHODS_ONLY', 'SHARED_DST', 'NOTHING']) for (const verb of [undefined, 'DEBUG']) for (const extra of ['', 'hooked_call']) {
      const cfg = Object.assign({}, C[cfgName]); if (verb) cfg.telemetryVerbosity = verb
      r.stats.states++; r.stats.transitions++
      leaves.push({ fam: 'perm', key: 'lattice¦' + st + '¦' + cfgName + '¦' + verb + '¦' + extra, code: `function main(a, b, c, s, o, h) { let x, y, i = 0; ${LS[st]} ${extra ? STMTS[extra] : ''} return x }`, config: cfg, file: '/p/app.js', desc: 'lattice ' + cfgName })
    }
    // counts around the sizes at which a narrow counter would wrap or a list would be capped
    for (const n of tier === 'thorough' ? [9, 10, 11, 99, 100, 101, 255, 256, 257, 1000, 65536] : [9, 10, 11, 255, 256, 257, 1000]) {
      for (const [kind, stmt] of [['plus', 'x = a + b;'], ['method', 'x = a.trim();'], ['mixed', 'x = a + b; y = `${a}${b}`; x += a.concat(b);']]) {
        for (const verb of [undefined, 'DEBUG']) {
          const cfg = Object.assign({}, C.FULL); if (verb) cfg.telemetryVerbosity = verb
          r.stats.states++; r.stats.transitions++
          leaves.push({ fam: 'perm', key: 'count¦' + n + '¦' + kind + '¦' + verb, code: `function main(a, b, c, s, o, h) { let x, y, i = 0; ${(stmt + ' ').repeat(kind === 'mixed' ? Math.ceil(n / 3) : n)} return x }`, config: cfg, file: '/p/app.js', desc: 'count ' + n + ' ' + kind })
        }
      }
    }
    return { leaves, stats: r.stats }
  },
  oracle ({ a, v, res, resp, leaf, config }) {
    if (a.status !== 'ok' || a.inputUnparsable || a.contentUnparsable) return
    const m = resp.metrics
    if (!m) { v('no-metrics', 'none', 'result carries no metrics'); return }
    const verb = leaf.fam === 'perm' ? String(config.telemetryVerbosity === undefined ? 'INFORMATION' : config.telemetryVerbosity).toUpperCase() : 'DEBUG'
    // call sites counted on the raw content; the erasure's own inventory has to agree (a hook call that sits where
    // the erasure does not look, e.g. inside the operand list of another hook, is a call site all the same)
    const hooks = a.erasure ? Math.max(a.erasure.hooks.length, a.hookCallSites || 0) : 0
    if (a.erasure && a.hookCallSites !== undefined && a.hookCallSites !== a.erasure.hooks.length) v('hook-call-outside-an-operation', a.hookCallSites > a.erasure.hooks.length ? 'more' : 'fewer', `${a.hookCallSites} _ddiast.<name>(…) call sites in the content, ${a.erasure.hooks.length} of them wrap an operation`)
    res.nontrivial = hooks > 0
    const file = leaf.file || '/p/app.js'
    if (m.file !== file) v('metrics-file', 'file', `metrics.file is ${JSON.stringify(m.file)} for a call with file ${JSON.stringify(file)}`)
    if (m.status !== 'modified' && m.status !== 'notmodified') v('metrics-status', 'status', `unexpected status string ${m.status}`)
    if ((m.status === 'modified') !== !!resp.content) v('metrics-status', 'status-vs-content', `status ${m.status} but content ${resp.content ? 'present' : 'empty'}`)
    if (verb === 'OFF') {
      if (m.instrumentedPropagation !== 0) v('count-off', 'off', `verbosity OFF but instrumentedPropagation=${m.instrumentedPropagation}`)
      if (m.propagationDebug) v('debug-off', 'off', 'verbosity OFF but a per-tag breakdown is produced')
      return
    }
    if (m.instrumentedPropagation !== hooks) {
      v('count-mismatch', m.instrumentedPropagation > hooks ? 'over' : 'under', `instrumentedPropagation=${m.instrumentedPropagation} but ${hooks} hook call sites were emitted`)
    }
    if (verb === 'DEBUG') {
      if (!m.propagationDebug) { v('debug-missing', 'debug', 'DEBUG verbosity but no per-tag breakdown'); return }
      const expect = {}
      if (a.reqs && (!a.mismatches || !a.mismatches.length)) {
        for (const q of a.reqs) if (q.hooked) { const t = tagOf(q); expect[t] = (expect[t] || 0) + 1 }
        const got = m.propagationDebug
        const keys = new Set(Object.keys(expect).concat(Object.keys(got)))
        for (const k of keys) if ((expect[k] || 0) !== (got[k] || 0)) { v('debug-partition', (got[k] || 0) > (expect[k] || 0) ? 'over' : 'under', `propagationDebug[${k}]=${got[k] || 0} but ${expect[k] || 0} hook call sites wrap a ${k} operation (expected ${JSON.stringify(expect)}, got ${JSON.stringify(got)})`); break }
      }
    } else if (m.propagationDebug) v('debug-unexpected', verb, `verbosity ${verb} but a per-tag breakdown is produced`)
  },
  bound: (tier) => ({ statements_per_program: tier === 'thorough' ? 4 : 3, statement_alphabet: Object.keys(STMTS).length, verbosities: VERBOSITIES.length }),
  rule: 'leaf = ordered selection of L distinct statements from a 24-statement alphabet mixing instrumented and inspected-but-not-instrumented operations x verbosity x {default, renamed hooks} x file name, plus families A, C, M, S under DEBUG with renamed hooks, verbosity spellings, 20 file names, counts around 10/256/1000/65536, and the configuration lattice (35 statements x 5 partial configurations x 2 verbosities x {alone, next to a hooked call}); non-trivial = at least one hook call site emitted; distinct by (text, config, file)',
  explanation: 'explicit enumeration of statement orders; oracle = metrics of the result vs hook call sites counted in the annotated erasure of the output, tags derived from the input node under each hook',
  assumptions: ['metrics shaping reached through the cfg hook (same code as lib_wasm::get_metrics)']
})
