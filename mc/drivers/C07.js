'use strict'
// C07 — directive prologues survive in every function and in the file.
const vm = require('vm')
const { enumerate, addStats } = require('../lib/explore')
const C = require('../grammar/configs')
const { isObj } = require('../oracles/erase')

const DIRECTIVES = ["'use strict'", '"use strict"', "'foo'", "'use\\x20strict'"]
// (an empty statement, a block or a label in front ends the prologue: the string after it is an ordinary statement)
const LOOKALIKES = ['', "('use strict');", '`use strict`;', "'use strict' + '';", "; 'use strict';", ";; 'use strict'; ;", "{ } 'use strict';", "'use strict'\n.length;", "'use strict'\n+ 1;"]
const BODIES = { none: 'x = 1;', hook: 'x = a + b;', temps: 'x = a + b.c() + g();' }
const PROBE = "[(function () { return this === undefined })(), (() => { try { undeclared_probe_var = 1; return 'sloppy' } catch (e) { return e.name } })()]"
// D = directives + look-alike + instrumented body
const SCOPES = {
  fn_decl: (D) => `function main(a, b, g, x) { ${D} return ${PROBE} }`,
  fn_expr: (D) => `const main = function (a, b, g, x) { ${D} return ${PROBE} }`,
  method: (D) => `const main = ({ m(a, b, g, x) { ${D} return ${PROBE} } }).m`,
  getter: (D) => `function main(a, b, g, x) { return ({ get v() { ${D} return ${PROBE} } }).v }`,
  setter: (D) => `function main(a, b, g, x) { let r; ({ set v(q) { ${D} r = ${PROBE} } }).v = 1; return r }`,
  ctor: (D) => `function main(a, b, g, x) { class K { constructor() { ${D} this.r = ${PROBE} } } return new K().r }`,
  class_method: (D) => `function main(a, b, g, x) { class K { m() { ${D} return ${PROBE} } } return new K().m() }`,
  arrow_block: (D) => `const main = (a, b, g, x) => { ${D} return ${PROBE} }`,
  nested_fn: (D) => `function main(a, b, g, x) { x = a + b; function inner() { ${D} return ${PROBE} } return inner() }`,
  generator: (D) => `function main(a, b, g, x) { function* gen() { ${D} yield ${PROBE} } return gen().next().value }`,
  script: (D, other) => `${D}\n${other}\nfunction main() { return ${PROBE} }`,
  script_block: (D, other) => `${D.replace(/x = /g, 'var x0 = ')}\n{ ${other} }\nfunction main() { return ${PROBE} }`,
  hashbang: (D, other) => `#!/usr/bin/env node\n${D}\n${other}\nfunction main() { return ${PROBE} }`,
  module: (D, other) => `${D}\n${other}\nexport function main() { return ${PROBE} }`
}
const FILE_SCOPES = new Set(['script', 'script_block', 'hashbang', 'module'])

async function build (tier) {
  const L = 3
  const dims = []
  for (let i = 0; i < L; i++) dims.push({ name: 'd' + i, symbols: [''].concat(DIRECTIVES), free: true })
  // (quick: the first five, i.e. one of the forms with something in front of the string)
  dims.push({ name: 'look', symbols: tier === 'thorough' ? LOOKALIKES : LOOKALIKES.slice(0, 5), free: true })
  dims.push({ name: 'scope', symbols: Object.keys(SCOPES), free: true })
  dims.push({ name: 'body', symbols: Object.keys(BODIES), free: true })
  // a string statement AFTER the first ordinary statement: inert, must stay where it is
  dims.push({ name: 'stray', symbols: ['', "'use strict';", '"use asm";'] })
  // one deviation among: another instrumented function in the file / how directives are separated (comments between
  // them included) / comments printed
  dims.push({ name: 'fileinstr', symbols: [true, false] })
  dims.push({ name: 'sep', symbols: ['; ', '\n', '; /* c */ ', ' // c\n'] })
  dims.push({ name: 'cfg', symbols: ['FULL', 'COMMENTS'] })
  const r = enumerate(dims, { k: tier === 'thorough' ? 3 : 1, valid: (cur, i) => !(i >= 1 && i < L && cur['d' + (i - 1)] === '' && cur['d' + i] !== '') })
  const leaves = r.leaves.map((l) => {
    const p = l.pick
    const dirs = []
    for (let i = 0; i < L; i++) if (p['d' + i]) dirs.push(p['d' + i])
    const sep = p.sep
    const D = dirs.map((d) => d + sep).join('') + (p.look ? p.look + ' ' : '') + (FILE_SCOPES.has(p.scope) ? '' : BODIES[p.body] + (p.stray ? ' ' + p.stray : ''))
    const other = FILE_SCOPES.has(p.scope) ? (p.body === 'none' ? 'function other(a, b, g, x) { x = 1 }' : `function other(a, b, g, x) { ${BODIES[p.body]} ${p.stray || ''} }`) : ''
    let code = SCOPES[p.scope](D, other)
    if (!FILE_SCOPES.has(p.scope) && p.fileinstr) code += '\nfunction extra(a, b) { return a + b }'
    return { key: [dirs.join(','), p.look, p.scope, p.body, p.stray, p.fileinstr, JSON.stringify(sep), p.cfg].join('¦'), code, scope: p.scope, cfg: p.cfg }
  })
  return { leaves, stats: r.stats, bound: { directive_sequence_length: L, directives: DIRECTIVES.length, lookalikes: LOOKALIKES.length, scopes: Object.keys(SCOPES).length, bodies: 3 }, alphabets: { directives: DIRECTIVES, lookalikes: LOOKALIKES, scopes: Object.keys(SCOPES), bodies: BODIES } }
}

function requests (leaf) { return [{ config: C[leaf.cfg || 'FULL'], file: '/p/app.js', code: leaf.code, want: ['astIn', 'astOut'] }] }

// list of (scope kind, directive raw texts) in traversal order; prologue statements of the rewriter skipped
const FUNCTION_TYPES = new Set(['FunctionDeclaration', 'FunctionExpression', 'ArrowFunctionExpression', 'ClassMethod', 'PrivateMethod', 'Constructor', 'MethodProperty', 'GetterProperty', 'SetterProperty'])
function directiveRun (stmts) {
  const out = []
  for (const s of stmts) {
    if (isObj(s) && s.type === 'ExpressionStatement' && isObj(s.expression) && s.expression.type === 'StringLiteral') out.push(String(s.expression.raw).slice(1, -1))
    else break
  }
  return out
}
function isPrologueStmt (s, next) {
  const isIf = (q) => isObj(q) && q.type === 'IfStatement' && isObj(q.test) && q.test.type === 'BinaryExpression' && isObj(q.test.left) && q.test.left.type === 'UnaryExpression' && isObj(q.test.left.argument) && q.test.left.argument.value === '_ddiast'
  return isIf(s) || (isObj(s) && s.type === 'EmptyStatement' && isIf(next))
}
function scopes (ast) {
  const out = []
  const body = ast.body.map((it) => it)
  out.push({ kind: 'program', dirs: directiveRun(body) })
  ;(function w (n, parentBody) {
    if (Array.isArray(n)) { n.forEach((x, i) => { if (!isPrologueStmt(x, n[i + 1])) w(x) }); return }
    if (!isObj(n)) return
    if (FUNCTION_TYPES.has(n.type)) {
      const b = n.body
      if (isObj(b) && b.type === 'BlockStatement') out.push({ kind: n.type, dirs: directiveRun(b.stmts) })
      else if (n.type === 'ArrowFunctionExpression') out.push({ kind: n.type, dirs: [] })
    }
    for (const k of Object.keys(n)) if (k !== 'span') w(n[k])
  })(ast.body)
  return out
}

function run (code, kind) {
  const ctx = vm.createContext({})
  let mainFn
  if (kind === 'module') return null // module code is always strict; executed statically only
  const body = code.startsWith('#!') ? '//' + code.slice(2) : code
  new vm.Script(body + '\n;globalThis.__main = typeof main === "function" ? main : undefined', { filename: 'f.js' }).runInContext(ctx)
  mainFn = ctx.__main
  const g = () => 'G'
  return JSON.stringify(vm.runInContext('__main', ctx)(' s ', { c: () => 'C' }, g, undefined))
}

async function check (leaf, resps) {
  const r = resps[0]
  const res = { nontrivial: false, outcome: r.status, violations: [], distinctKey: leaf.code }
  const v = (rule, sig, detail) => res.violations.push({ rule, sig, detail: detail + '\n  leaf: ' + leaf.key + '\n' + leaf.code.slice(0, 300) })
  if (r.status !== 'ok') return res
  if (!r.content) { res.outcome = 'notmodified'; return res }
  if (!r.reparse || !r.reparse.ok || !r.parseIn.ok) { res.outcome = 'unparsable'; return res }
  res.nontrivial = true
  res.outcome = 'modified'
  const a = scopes(r.parseIn.ast); const b = scopes(r.reparse.ast)
  if (a.length !== b.length) v('scope-count', 'count', `input has ${a.length} function scopes, content has ${b.length}`)
  else {
    for (let i = 0; i < a.length; i++) {
      if (JSON.stringify(a[i].dirs) !== JSON.stringify(b[i].dirs)) { v('directives-changed', `${a[i].kind} ${a[i].dirs.length}->${b[i].dirs.length}`, `directive prologue of ${a[i].kind} #${i}: input [${a[i].dirs.join(' | ')}] content [${b[i].dirs.join(' | ')}]`); break }
    }
  }
  // dynamic strictness probe
  try {
    const kind = r.parseIn.kind
    if (kind !== 'module') {
      // a program whose INPUT already throws (e.g. `'use strict'\n('use strict')` is a call without ASI) decides nothing
      let x; let inputThrew = false
      try { x = run(leaf.code, kind) } catch (e) { inputThrew = true; res.notes = { input_probe_throws: 1 } }
      if (!inputThrew) {
        const y = run(r.content, kind)
        if (x !== y) v('strictness-changed', leaf.scope, `strictness probe: input ${x}, content ${y}`)
      }
      res.evaluations = 3
    }
  } catch (e) { v('probe-threw', leaf.scope, String(e).slice(0, 200)) }
  res.sample = { code: leaf.code.slice(0, 200) }
  return res
}

module.exports = {
  id: 'C07',
  build,
  requests,
  check,
  rule: 'leaf = directive sequence of length 0..3 over 4 directive spellings x look-alike statement (5 quick / 9 thorough, incl. a string behind an empty statement or a block) x 14 scope kinds x {no instrumentation, hook without temporaries, hook with temporaries} x other instrumented function present/absent; non-trivial = file reported modified (something was inserted); distinct by program text',
  explanation: 'full product enumeration; oracle = leading directive lists of the program and of every function body in AST(content) vs AST(input) (raw ASTs, scopes paired in traversal order) + strictness probes executed in V8 on both sides',
  assumptions: ['a directive is an ExpressionStatement whose expression is an un-parenthesised string literal; compared by raw text between the quotes']
}
