'use strict'
// C14 — literal collection reports exactly the input's string literals, truly located.
// The generator assembles every program piece by piece and therefore KNOWS each literal's offset
// (-> 1-based line / code-point column of the opening quote), value, byte length and the name it
// initialises; the reported set must equal that table exactly.
const { enumerate, addStats } = require('../lib/explore')
const C = require('../grammar/configs')

// value of the requested UTF-8 byte length; kind: ascii | two (one 2-byte char) | three (one 3-byte char)
function mkValue (bytes, kind, tag) {
  const special = kind === 'two' ? 'ñ' : kind === 'three' ? '€' : ''
  const sb = Buffer.byteLength(special)
  let s = (tag + 'abcdefghij'.repeat(30)).slice(0, bytes - sb)
  if (kind !== 'ascii') s = s.slice(0, Math.floor(s.length / 2)) + special + s.slice(Math.floor(s.length / 2))
  return s
}
const LENGTHS = [[9, 'ascii'], [10, 'ascii'], [11, 'ascii'], [40, 'ascii'], [255, 'ascii'], [256, 'ascii'], [257, 'ascii'], [11, 'two'], [12, 'two'], [256, 'two'], [257, 'two'], [11, 'three'], [13, 'three'], [256, 'three'], [258, 'three'], [10, 'two']]

// placements: array of parts; {L: n} is literal slot n; opts per slot: ident (name initialised), excluded (by rule)
const P = (parts, slots) => ({ parts, slots: slots || [{}] })
const PLACEMENTS = {
  plus_right: P(['x = a + ', 0, ';']),
  plus_left: P(['x = ', 0, ' + a;']),
  plus_both: P(['x = ', 0, ' + a + ', 1, ';'], [{}, {}]),
  plus_literals_only: P(['x = ', 0, ' + ', 1, ';'], [{}, {}]),
  plus_assign: P(['x += ', 0, ';']),
  plus_assign_computed_key: P(['o[', 0, '] += a;']),
  plus_assign_key_then_member: P(['o[', 0, '].p += a + ', 1, ';'], [{}, {}]),
  plus_assign_both: P(['o[', 0, '] += ', 1, ';'], [{}, {}]),
  method_two_args: P(['x = a.concat(', 0, ', ', 1, ');'], [{}, {}]),
  literal_receiver_and_arg: P(['x = ', 0, '.concat(a, ', 1, ');'], [{}, {}]),
  plus_two_literals_then_ident: P(['x = ', 0, ' + ', 1, ' + a;'], [{}, {}]),
  obj_two_props: P(['x = { k6: ', 0, ', k7: ', 1, ' };'], [{ ident: 'k6' }, { ident: 'k7' }]),
  tpl_two_substitutions: P(['x = `${a}` + h(', 0, ', ', 1, ');'], [{}, {}]),
  proto_call_two: P(['x = String.prototype.concat.call(a, ', 0, ', ', 1, ');'], [{}, {}]),
  tpl_neighbour: P(['x = `${a}` + ', 0, ';']),
  tpl_substitution: P(['x = `${', 0, '}${a}`;']),
  method_arg: P(['x = a.concat(', 0, ');']),
  method_receiver: P(['x = ', 0, '.concat(a);']),
  call_arg: P(['h(', 0, ');']),
  array_elems: P(['x = [', 0, ', ', 1, '];'], [{}, {}]),
  computed_member: P(['x = o[', 0, '];']),
  return_value: P(['if (c) return ', 0, ';']),
  switch_case: P(['switch (a) { case ', 0, ': x = 1 }']),
  require_first: P(['x = require(', 0, ');'], [{ excluded: true }]),
  require_two: P(['x = require(', 0, ', ', 1, ');'], [{ excluded: true }, { excluded: true }]),
  require_second_only: P(['x = require(a, ', 0, ');']),
  require_member: P(['x = o.require(', 0, ');']),
  require_spread: P(['x = require(...[', 0, ']);']),
  require_nested: P(['x = h(require(', 0, ') + ', 1, ');'], [{ excluded: true }, {}]),
  regexp_first: P(['x = new RegExp(', 0, ');'], [{ excluded: true }]),
  regexp_two: P(['x = new RegExp(', 0, ', ', 1, ');'], [{ excluded: true }, { excluded: true }]),
  regexp_second_only: P(['x = new RegExp(a, ', 0, ');']),
  regexp_conditional: P(['x = new RegExp(c ? ', 0, ' : a);']),
  regexp_call: P(['x = RegExp(', 0, ');']),
  regexp_member: P(['x = new o.RegExp(', 0, ');']),
  regexp_no_args_then_lit: P(['x = [new RegExp, ', 0, '];']),
  const_init: P(['const n1 = ', 0, ';'], [{ ident: 'n1' }]),
  // binding patterns: the literal initialises no single variable
  pattern_obj_init: P(['const { length: q1 } = ', 0, ';']),
  pattern_arr_init: P(['var [c1, c2] = ', 0, ';']),
  pattern_rest_init: P(['let { 0: q2, ...q3 } = ', 0, ';']),
  pattern_obj_then_ident: P(['const { length: q6 } = ', 0, ', n18 = ', 1, ';'], [{}, { ident: 'n18' }]),
  pattern_default: P(['const { q4 = ', 0, ' } = o;']),
  pattern_arr_default: P(['let [q7 = ', 0, '] = [];']),
  assign_pattern_default: P(['[x = ', 0, '] = [];']),
  param_default: P(['x = (function (q5 = ', 0, ') { return q5 })();']),
  for_of_literal: P(['for (const ch of ', 0, ') x = ch;']),
  for_of_pattern_default: P(['for (const { q8 = ', 0, ' } of [o]) x = q8;']),
  catch_pattern_default: P(['try { throw o } catch ({ q9 = ', 0, ' }) { x = q9 }']),
  let_init: P(['let n2 = ', 0, ';'], [{ ident: 'n2' }]),
  var_two: P(['var n3 = ', 0, ', n4 = ', 1, ';'], [{ ident: 'n3' }, { ident: 'n4' }]),
  let_after_uninitialised: P(['let u1, n11 = ', 0, ';'], [{ ident: 'n11' }]),
  var_mixed_uninitialised: P(['var u2, n12 = ', 0, ', u3, n13 = ', 1, ', u4;'], [{ ident: 'n12' }, { ident: 'n13' }]),
  for_of_pattern_default: P(['for (const { n14 = ', 0, ' } of [o]) x = n14;']),
  for_in_head: P(['for (var n15 in { k9: ', 0, ' }) x = n15;'], [{ ident: 'k9' }]),
  for_init_two: P(['for (let u5, n16 = ', 0, '; c; c = false) x = n16;'], [{ ident: 'n16' }]),
  let_conditional: P(["let n5 = c ? ", 0, " : '';"]),
  destructuring_default: P(['const { n6 = ', 0, ' } = o;']),
  assign_plain: P(['x = ', 0, ';']),
  obj_ident_key: P(['x = { k1: ', 0, ' };'], [{ ident: 'k1' }]),
  obj_string_key: P(["x = { 'k2': ", 0, ' };']),
  obj_computed_key: P(['x = { [a]: ', 0, ' };']),
  obj_nested: P(['x = { k3: { k4: ', 0, ' } };'], [{ ident: 'k4' }]),
  obj_shorthand_method: P(['x = { m() { return ', 0, ' } };']),
  obj_string_key_long: P(["x = { 'a long string used as key': 1, k5: ", 0, ' };'], [{ ident: 'k5' }]),
  default_param: P(['function q1(p = ', 0, ') { return p }']),
  class_field: P(['class K1 { f = ', 0, '; static s = ', 1, ' }'], [{}, {}]),
  nested_function: P(['function q2() { return ', 0, ' }']),
  arrow_concise: P(['const q3 = () => ', 0, ';']),
  new_arg: P(['x = new X(', 0, ');']),
  tagged_template_arg: P(['x = h`t${', 0, '}`;']),
  in_condition: P(['if (a === ', 0, ') x = 1;']),
  typeof_cmp: P(['x = typeof a === ', 0, ';']),
  chain_arg: P(['x = s?.concat(', 0, ');'])
}
// ---- composed placements: every wrapper, and every wrapper inside every wrapper --------------------------
// H is the hole; X(f) is a further literal written directly by the wrapper, f(holeIsLiteral) gives its
// expected attributes. `hole` = attributes of a literal that sits directly in the hole.
const H = { hole: true }
const X = (f) => ({ extra: true, opts: f || (() => ({})) })
const WRAPS = {
  call: { parts: ['h(', H, ')'] },
  call_second: { parts: ['h(a, ', H, ')'] },
  objval: { parts: ['{ k8: ', H, ' }'], hole: { ident: 'k8' } },
  objval_strkey: { parts: ["{ 'k9': ", H, ' }'] },
  objval_numkey: { parts: ['{ 1: ', H, ' }'] },
  obj_computed_key: { parts: ['{ [', H, ']: a }'] },
  obj_computed_key_litval: { parts: ['{ [', H, ']: ', X(), ' }'] },
  obj_computed_val: { parts: ['{ [a]: ', H, ' }'] },
  obj_two: { parts: ['{ k10: ', X(() => ({ ident: 'k10' })), ', k11: ', H, ' }'], hole: { ident: 'k11' } },
  obj_spread: { parts: ['{ ...', H, ' }'] },
  obj_spread_then_val: { parts: ['{ ...a, k12: ', H, ' }'], hole: { ident: 'k12' } },
  obj_method: { parts: ['{ m() { return ', H, ' } }'] },
  obj_getter: { parts: ['{ get g() { return ', H, ' } }'] },
  obj_method_computed: { parts: ['{ [', H, ']() { return ', X(), ' } }'] },
  arr: { parts: ['[', H, ']'] },
  arr_spread: { parts: ['[...', H, ']'] },
  plus_l: { parts: [H, ' + a'] },
  plus_r: { parts: ['a + ', H] },
  concat_arg: { parts: ['a.concat(', H, ')'] },
  concat_recv: { parts: [H, '.concat(a)'] },
  tpl: { parts: ['`${', H, '}`'] },
  tpl_with_ident: { parts: ['`${a}${', H, '}`'] },
  tagged: { parts: ['h`t${', H, '}`'] },
  cond: { parts: ['(c ? ', H, ' : ', X(), ')'] },
  cond_test: { parts: ['(', H, ' ? a : c)'] },
  paren: { parts: ['(', H, ')'] },
  seq: { parts: ['(a, ', H, ')'] },
  require: { parts: ['require(', H, ')'], hole: { excluded: true } },
  require_two: { parts: ['require(', H, ', ', X((lit) => ({ excluded: lit })), ')'], hole: { excluded: true } },
  require_after_ident: { parts: ['require(a, ', H, ')'] },
  require_after_number: { parts: ['require(1, ', H, ')'], hole: { excluded: true }, region: { excluded: true } }, // the whole call is skipped
  regexp_after_number: { parts: ['new RegExp(1, ', H, ')'], hole: { excluded: true }, region: { excluded: true } },
  require_member: { parts: ['o.require(', H, ')'] },
  regexp: { parts: ['new RegExp(', H, ')'], hole: { excluded: true } },
  regexp_two: { parts: ['new RegExp(', H, ', ', X((lit) => ({ excluded: lit })), ')'], hole: { excluded: true } },
  regexp_call: { parts: ['RegExp(', H, ')'] },
  arrow_call: { parts: ['(() => (', H, '))()'] },
  arrow_block: { parts: ['(() => { const n9 = ', H, '; return n9 })()'], hole: { ident: 'n9' } },
  arrow_block_after_uninit: { parts: ['(() => { let u9, n17 = ', H, '; return n17 })()'], hole: { ident: 'n17' } },
  member: { parts: ['o[', H, ']'] },
  optmember: { parts: ['s?.[', H, ']'] },
  optcall_arg: { parts: ['s?.concat(', H, ')'] },
  assign_member: { parts: ['(o.p = ', H, ')'] },
  plus_assign_computed_key: { parts: ['(o[', H, '] += a)'] },
  plus_assign_object_key: { parts: ['(o[', H, '].p += a)'] },
  plus_assign_member: { parts: ['(o.p += ', H, ')'] },
  logical: { parts: ['(a || ', H, ')'] },
  nullish: { parts: ['(a ?? ', H, ')'] },
  unary: { parts: ['typeof ', H] },
  new_arg: { parts: ['new X(', H, ')'] },
  class_static: { parts: ['class { static s = ', H, ' }'] },
  class_method: { parts: ['class { m() { return ', H, ' } }'] },
  class_computed: { parts: ['class { [', H, ']() {} }'] },
  fn_default: { parts: ['function (p = ', H, ') {}'] },
  fn_destructuring_default: { parts: ['function ({ p = ', H, ' }) {}'] },
  in_op: { parts: ['(', H, ' in o)'] },
  proto_call: { parts: ['String.prototype.concat.call(a, ', H, ')'] }
}
function composeWrap (outerName, innerName) {
  const parts = []; const slots = []
  const inner = WRAPS[innerName]
  const put = (w, holeFill, holeIsLiteral) => {
    for (const part of w.parts) {
      if (part === H) holeFill()
      else if (part && part.extra) { slots.push(part.opts(holeIsLiteral)); parts.push(slots.length - 1) } else parts.push(part)
    }
  }
  const fillInner = () => put(inner, () => { slots.push(inner.hole || {}); parts.push(slots.length - 1) }, true)
  if (outerName) {
    const outer = WRAPS[outerName]
    put(outer, () => { const n0 = slots.length; fillInner(); if (outer.region) for (let k = n0; k < slots.length; k++) slots[k] = Object.assign({}, slots[k], outer.region) }, false)
  } else fillInner()
  return P(['x = '].concat(parts, [';']), slots)
}
const COMPOSED = {}
for (const i of Object.keys(WRAPS)) COMPOSED['w:' + i] = composeWrap(null, i)
for (const o of Object.keys(WRAPS)) for (const i of Object.keys(WRAPS)) COMPOSED['w:' + o + '>' + i] = composeWrap(o, i)

const TOP_PLACEMENTS = {
  top_const: P(['const t1 = ', 0, ';'], [{ ident: 't1' }]),
  top_plus: P(['var t2 = g1 + ', 0, ';']),
  top_directive_like: P([0, ';']),
  top_export_default_obj: P(['var t3 = { kk: ', 0, ' };'], [{ ident: 'kk' }]),
  // module declarations: every kind of export holds expressions; module specifiers are not expressions
  mod_export_default_obj: P(['export default { kk: ', 0, ' };'], [{ ident: 'kk' }]),
  mod_export_default_lit: P(['export default ', 0, ';']),
  mod_export_default_arrow: P(['export default (q) => { return q + ', 0, ' };']),
  mod_export_default_call: P(['export default String(', 0, ');']),
  mod_export_default_fn: P(['export default function () { return ', 0, ' }']),
  mod_export_default_class: P(['export default class { m() { return ', 0, ' } }']),
  mod_export_const: P(['export const t4 = ', 0, ';'], [{ ident: 't4' }]),
  mod_export_let_obj: P(['export let t5 = { kk: ', 0, ' }, t6 = ', 1, ';'], [{ ident: 'kk' }, { ident: 't6' }]),
  mod_export_fn: P(['export function ef(q = ', 0, ') { return q }']),
  mod_export_class: P(['export class EC { static m() { return [', 0, '] } }']),
  mod_import_source: P(['import ns1 from ', 0, ';'], [{ excluded: true }]),
  mod_import_bare: P(['import ', 0, ';'], [{ excluded: true }]),
  mod_export_from: P(['export * from ', 0, ';'], [{ excluded: true }]),
  mod_export_named_from: P(['export { default as d2 } from ', 0, ';'], [{ excluded: true }]),
  mod_import_then_use: P(['import ns2 from ', 0, '; export const t7 = ', 1, ';'], [{ excluded: true }, { ident: 't7' }])
}
const LAYOUTS = ['same_line', 'own_line', 'after_bmp', 'crlf', 'tabs', 'after_wide', 'after_zero_width']
// how the literal is SPELLED: the report carries the decoded value, the window counts bytes of the value
const SPELLINGS = {
  plain: (v) => ({ src: v, value: v }),
  escaped_n: (v) => ({ src: v.slice(0, 3) + '\\n' + v.slice(4), value: v.slice(0, 3) + '\n' + v.slice(4) }),
  unicode_escape: (v) => ({ src: v.slice(0, 3) + '\\u00f1' + v.slice(4), value: v.slice(0, 3) + 'ñ' + v.slice(4) }),
  hex_escape: (v) => ({ src: v.slice(0, 3) + '\\x41' + v.slice(4), value: v.slice(0, 3) + 'A' + v.slice(4) }),
  line_continuation: (v) => ({ src: v.slice(0, 3) + '\\\n' + v.slice(3), value: v }),
  double_quotes: (v) => ({ src: v, value: v, quote: '"' })
}

function buildProgram (placeName, lenIdx, layout, multiplicity, modified, same, spelling) {
  const spell = SPELLINGS[spelling || 'plain']
  const place = PLACEMENTS[placeName] || TOP_PLACEMENTS[placeName] || COMPOSED[placeName]
  const top = !!TOP_PLACEMENTS[placeName]
  const eol = layout === 'crlf' ? '\r\n' : '\n'
  let text = ''
  const lits = []
  const emit = (s) => { text += s }
  const emitLit = (value, opts) => {
    if (layout === 'own_line') emit(eol + '      ')
    if (layout === 'after_bmp') emit("/* ñ€ */ ")
    if (layout === 'tabs') emit('\t\t')
    if (layout === 'after_wide') emit("/* 密码ＡＢ */ ")
    if (layout === 'after_zero_width') emit("/* a\u200bb\u200d */ ")
    const sp = spell(value)
    const q = sp.quote || "'"
    lits.push({ value: sp.value, offset: text.length, ident: opts.ident || null, excluded: !!opts.excluded, quote: q, src: sp.src })
    emit(q + sp.src + q)
  }
  const [bytes, kind] = LENGTHS[lenIdx]
  // `same`: every slot of the placement holds the SAME value (two occurrences of one value in one operation)
  const values = place.slots.map((_, i) => mkValue(bytes, kind, 'v' + (same ? 0 : i) + placeName + '_'))
  const emitPlacement = (vals) => { for (const part of place.parts) { if (typeof part === 'number') emitLit(vals[part], place.slots[part]); else emit(part) } }
  emit('// header ñ' + eol)
  if (top) { emitPlacement(values); emit(eol) }
  emit('function main(a, c, h, o, s, X, g1) {' + eol + '  let x;' + eol)
  if (modified) emit('  x = a + c;' + eol)
  if (!top) { emit('  '); emitPlacement(values); emit(eol) }
  if (multiplicity === 'twice') {
    // the same value(s) again, later in the file, in a neutral placement
    emit('  h(')
    emitLit(values[0], {})
    emit(');' + eol)
  }
  emit('  return x' + eol + '}' + eol)
  return { text, lits }
}

function lineCol (text, offset) {
  let line = 1; let col = 1
  const cps = Array.from(text.slice(0, offset))
  for (const ch of cps) { if (ch === '\n') { line++; col = 1 } else col++ }
  return { line, col }
}

async function build (tier) {
  const lens = tier === 'thorough' ? LENGTHS.map((_, i) => i) : [1, 2, 3, 5, 6, 7, 9, 10, 11, 14, 15]
  const dims = [
    { name: 'place', symbols: Object.keys(PLACEMENTS).concat(Object.keys(TOP_PLACEMENTS)), free: true },
    { name: 'len', symbols: lens, free: true },
    { name: 'layout', symbols: LAYOUTS },
    { name: 'mult', symbols: ['once', 'twice'] },
    { name: 'modified', symbols: [true, false], free: true },
    { name: 'literals', symbols: ['omitted', true, false] },
    { name: 'same', symbols: [false, true], free: true },
    { name: 'spelling', symbols: Object.keys(SPELLINGS) }
  ]
  const r = enumerate(dims, { k: tier === 'thorough' ? 3 : 1 })
  // composed placements: full product with the lengths on both sides of each bound and modified/unmodified
  const clens = tier === 'thorough' ? lens : [1, 2, 5, 6]
  const r2 = enumerate([
    { name: 'place', symbols: Object.keys(COMPOSED), free: true },
    { name: 'len', symbols: clens, free: true },
    { name: 'modified', symbols: [true, false], free: true },
    { name: 'layout', symbols: ['same_line', 'own_line'] },
    { name: 'mult', symbols: ['once', 'twice'] },
    { name: 'literals', symbols: ['omitted'] },
    { name: 'same', symbols: [false, true] },
    { name: 'spelling', symbols: ['plain'] }
  ], { k: tier === 'thorough' ? 2 : 0 })
  r.leaves = r.leaves.concat(r2.leaves.filter((l) => !l.pick.same || COMPOSED[l.pick.place].slots.length > 1))
  r.stats = addStats(r.stats, r2.stats)
  const leaves = r.leaves.filter((l) => !l.pick.same || (PLACEMENTS[l.pick.place] || TOP_PLACEMENTS[l.pick.place] || COMPOSED[l.pick.place]).slots.length > 1).map((l) => ({ key: [l.pick.place, l.pick.len, l.pick.layout, l.pick.mult, l.pick.modified, l.pick.literals, l.pick.same, l.pick.spelling].join('¦'), pick: l.pick }))
  return { leaves, stats: r.stats, bound: { deviations_k_over_layout_multiplicity_literalsOption: tier === 'thorough' ? 3 : 1, placements: Object.keys(PLACEMENTS).length + Object.keys(TOP_PLACEMENTS).length, composed_placements: Object.keys(COMPOSED).length, wrappers: Object.keys(WRAPS).length, lengths: lens.length }, alphabets: { placements: Object.keys(PLACEMENTS).concat(Object.keys(TOP_PLACEMENTS)), wrappers: Object.keys(WRAPS), lengths: LENGTHS.map((x) => x.join(':')), layouts: LAYOUTS } }
}

function cfgOf (pick, base) {
  const c = Object.assign({}, base)
  if (pick.literals !== 'omitted') c.literals = pick.literals
  return c
}

function requests (leaf) {
  const p = leaf.pick
  const prog = buildProgram(p.place, p.len, p.layout, p.mult, p.modified, p.same, p.spelling)
  return [
    { config: cfgOf(p, C.FULL), file: '/p/lit.js', code: prog.text },
    { config: cfgOf(p, C.NOTHING), file: '/p/lit.js', code: prog.text }
  ]
}

function reported (r) {
  const out = []
  for (const l of r.literalsResult.literals) for (const loc of l.locations) out.push(JSON.stringify([l.value, loc.line, loc.column, loc.ident === undefined ? null : loc.ident]))
  return out
}

async function check (leaf, resps) {
  const p = leaf.pick
  const prog = buildProgram(p.place, p.len, p.layout, p.mult, p.modified, p.same, p.spelling)
  const res = { nontrivial: true, outcome: 'ok', violations: [], distinctKey: prog.text + '|' + p.literals }
  const v = (rule, sig, detail) => res.violations.push({ rule, sig, detail: detail + '\n  leaf: ' + leaf.key + '\n' + prog.text.slice(0, 500) })
  const [r, r0] = resps
  const enabled = p.literals !== false
  // every generated program is valid JavaScript: a refusal (or a panic) means no report where one is due
  if (r.status !== 'ok') {
    res.outcome = 'rejected:' + r.status
    if (enabled) { v('no-report', 'program-refused:' + r.status, `the program is valid but the call ends with ${r.status}: ${String(r.error || r.panic || '').slice(0, 160)}`); res.outcome = 'violation' } else res.nontrivial = false
    return res
  }
  if (!enabled) {
    if (r.literalsResult != null) v('report-when-disabled', 'disabled', 'literals=false but a literalsResult is produced')
    res.outcome = 'disabled'
    return res
  }
  if (r.literalsResult == null) { v('no-report', 'enabled', 'literal collection enabled but no literalsResult'); return res }
  if (r.literalsResult.file !== '/p/lit.js') v('report-file', 'file', 'literalsResult.file is ' + r.literalsResult.file)
  const expect = []
  for (const l of prog.lits) {
    const bytes = Buffer.byteLength(l.value)
    if (l.excluded || !(bytes > 10 && bytes <= 256)) continue
    const { line, col } = lineCol(prog.text, l.offset)
    expect.push(JSON.stringify([l.value, line, col, l.ident]))
  }
  const got = reported(r)
  const gs = new Set(got); const es = new Set(expect)
  if (got.length !== gs.size) v('duplicate-location', p.place, 'a location is listed more than once: ' + got.filter((x, i) => got.indexOf(x) !== i)[0].slice(0, 120))
  // equal values must be grouped in ONE entry
  const vals = r.literalsResult.literals.map((l) => l.value)
  if (vals.length !== new Set(vals).size) v('value-not-grouped', p.place, 'the same value appears in two entries')
  for (const e of es) if (!gs.has(e)) { const [val, line, col, ident] = JSON.parse(e); const near = got.find((g) => JSON.parse(g)[0] === val); v('missing-literal', `${p.place}:${near ? 'wrong-location-or-ident' : 'absent'}:bytes${Buffer.byteLength(val)}`, `expected literal (${Buffer.byteLength(val)} bytes, ${Array.from(val).length} chars) at ${line}:${col} ident=${ident}; ${near ? 'reported as ' + near.slice(-40) : 'not reported at all'}`); break }
  for (const g of gs) if (!es.has(g)) { const [val, line, col, ident] = JSON.parse(g); const want = expect.find((e) => JSON.parse(e)[0] === val); if (want) continue; v('unexpected-literal', `${p.place}:bytes${Buffer.byteLength(val)}`, `reported literal (${Buffer.byteLength(val)} bytes) at ${line}:${col} ident=${ident} must not be reported (length window / require / RegExp exclusion)`); break }
  // the input text at every reported position starts with a quote followed by the literal
  const lines = prog.text.split('\n')
  for (const g of gs) {
    const [val, line, col] = JSON.parse(g)
    const cps = Array.from(lines[line - 1] || '')
    const lit = prog.lits.find((x) => x.value === val)
    const expectText = lit ? lit.quote + lit.src.split('\n')[0] : "'" + val
    const at = cps.slice(col - 1, col - 1 + Array.from(expectText).length).join('')
    if (at !== expectText) { v('location-not-on-literal', p.place, `reported position ${line}:${col} does not hold the literal (text there: ${JSON.stringify(at.slice(0, 30))})`); break }
  }
  // instrumentation never adds, removes, duplicates or relocates entries
  if (r0.status !== 'ok' || !r0.literalsResult) v('no-report', 'nothing-enabled', `literal collection enabled and no operation configured: ${r0.status !== 'ok' ? 'the call ends with ' + r0.status : 'no literalsResult'}`)
  else {
    const g0 = new Set(reported(r0))
    if (g0.size !== gs.size || Array.from(gs).some((x) => !g0.has(x))) v('instrumentation-changes-report', p.place, `report under the full configuration differs from the report with nothing enabled (${gs.size} vs ${g0.size} locations)`)
  }
  if (res.violations.length) res.outcome = 'violation'
  else res.outcome = expect.length ? 'reported' : 'nothing-to-report'
  res.sample = { leaf: leaf.key, expected: expect.length, reported: got.length }
  return res
}

module.exports = {
  id: 'C14',
  // (C13 feeds every placement once to the totality check)
  placementNames: () => Object.keys(PLACEMENTS).concat(Object.keys(TOP_PLACEMENTS), Object.keys(COMPOSED)),
  buildProgram,
  build,
  requests,
  check,
  rule: 'leaf = (placement of 1-3 string literals: 56 hand-written placements plus every one of 54 expression wrappers alone and inside every other wrapper, 2970 composed placements) x (UTF-8 byte length around both bounds, ASCII / 2-byte / 3-byte characters) x layout x multiplicity x {file modified or not} x literals option, with up to k deviations among layout/multiplicity/option; each leaf = two real calls (full config and nothing enabled); non-trivial = every leaf (the generator-known table, possibly empty, is compared exactly); distinct by (text, option)',
  explanation: 'explicit enumeration; oracle = generator-known literal table (value, 1-based line, code-point column of the opening quote, initialised name) compared as a set with the report, text at each reported position re-read from the input, and report(full config) == report(nothing enabled)',
  assumptions: ['columns are counted in code points; astral characters are not generated', 'values contain no quotes or escapes, so value == source text between the quotes']
}
