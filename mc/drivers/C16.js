'use strict'
// C16 — rewriting is a function of (configuration, source, file name) only.
// History search: every sequence of calls up to length h over an alphabet of (rewriter instance,
// input) pairs is executed in its OWN fresh process (process-wide state is what is being hunted);
// every call's result must equal the reference obtained by a single call in a fresh process.
const { histories } = require('../lib/explore')
const { runOnce } = require('../lib/iastmc')
const C = require('../grammar/configs')

function b64 (s) { return Buffer.from(s, 'utf8').toString('base64') }
const MAP_A = JSON.stringify({ version: 3, sources: ['orig-a.ts'], names: ['n1'], mappings: 'AAAA;AACAA;AACA;AACA', file: 'a.js' })
const MAP_B = JSON.stringify({ version: 3, sources: ['orig-b.ts'], names: [], mappings: 'AAAA;;AAEA', file: 'b.js' })

const EXT_VFS = { '/app/a/index.js.map': { kind: 'text', text: MAP_A }, '/app/b/index.js.map': { kind: 'text', text: MAP_B } }
const BASE = Object.assign({}, C.FULL, { chainSourceMap: true, comments: true, telemetryVerbosity: 'DEBUG', literals: true })
const NOPREFIX = Object.assign({}, BASE); delete NOPREFIX.localVarPrefix

const INPUTS = {
  mod: { file: '/p/a.js', code: 'function f(a, b) {\n  return a + b.trim()\n}\n' },
  notmod: { file: '/p/a.js', code: 'function f(a) {\n  return 1 // nothing to do\n}\n' },
  syntax: { file: '/p/c.js', code: 'function f( { return' },
  cancelled: { file: '/p/d.js', code: 'function f(a) { const __datadog_p_0 = 1; return a + g() }' },
  // a reserved-prefix name in a position only the per-identifier check sees (a parameter), for two prefixes
  param_p: { file: '/p/n.js', code: 'function f(__datadog_p_0, a) { return a() + 1 }' },
  param_zz: { file: '/p/o.js', code: 'function f(__datadog_zz_0, a) { return a() + 1 }' },
  chained: { file: '/p/e.js', code: 'function f(a, b) {\n  return `${a}${b}`\n}\n//# sourceMappingURL=data:application/json;base64,' + b64(MAP_A) },
  notmod_map: { file: '/p/f.js', code: 'const x = 1;\n//# sourceMappingURL=data:application/json;base64,' + b64(MAP_B) },
  twocomments: { file: '/p/g.js', code: 'function f(a, b) { return a + b } //# sourceMappingURL=data:application/json;base64,' + b64(MAP_A) + '\nfunction g(c) { return c + 1 }\n//# sourceMappingURL=data:application/json;base64,' + b64(MAP_B) },
  twocomments_last_missing: { file: '/p/j.js', code: 'function f(a, b) { return a + b } //# sourceMappingURL=data:application/json;base64,' + b64(MAP_A) + '\nfunction g(c) { return c + 1 }\n//# sourceMappingURL=nowhere.js.map\n' },
  threecomments: { file: '/p/k.js', code: 'function f(a, b) { return a + b } //# sourceMappingURL=missing1.map\nfunction g(c) { return c + 1 } //# sourceMappingURL=data:application/json;base64,' + b64(MAP_B) + '\nfunction h(d) { return d + 2 }\n//# sourceMappingURL=missing2.map' },
  literals: { file: '/p/h.js', code: 'const secret = "a long secret literal";\nfunction f(a) { const k = { key: "another long literal" }; return a + "yet another long literal" + secret }\n' },
  // the same relative reference in two folders, different map files behind it
  ext_a: { file: '/app/a/index.js', code: 'function join(a, b) { return a + b }\n//# sourceMappingURL=index.js.map\n', vfs: EXT_VFS },
  ext_b: { file: '/app/b/index.js', code: 'function join(a, b) { return a + b }\n//# sourceMappingURL=index.js.map\n', vfs: EXT_VFS },
  // more literals than any plausible per-file cap: the reported SET must not depend on hash order
  manyliterals: { file: '/p/m.js', code: 'function f(a, b) { return a + b }\n' + Array.from({ length: 300 }, (_, i) => `const v${i} = 'literal_value_${String(i).padStart(5, '0')}';`).join('\n') + '\n' },
  long: { file: '/p/i.js', code: 'function f(a, b, o) {\n  { let x = a + g() + h(); }\n  { o.p += b.trim() + `${a}${g()}`; }\n  for (const q of o) { if (q?.trim().length) { b += q } }\n  return a.concat(b, g())\n}\n' }
}
const OTHER = Object.assign({}, C.PLUS_ONLY, { localVarPrefix: 'zz', comments: false, chainSourceMap: false, literals: false, telemetryVerbosity: 'OFF' })
const DEFAULT_VERBOSITY = Object.assign({}, BASE); delete DEFAULT_VERBOSITY.telemetryVerbosity
const EMPTY_PREFIX = Object.assign({}, BASE, { localVarPrefix: '' })
// the same operations in the same order as BASE, other replacement names (anything keyed by the source names alone
// would confuse the two)
const SAME_SRC_OTHER_DST = Object.assign({}, BASE, { csiMethods: C.RENAMED.csiMethods })
const INSTANCES = { R1: BASE, R2: BASE, R3: NOPREFIX, R4: OTHER, R5: DEFAULT_VERBOSITY, R6: EMPTY_PREFIX, R7: SAME_SRC_OTHER_DST }

// a second instance with the same configuration: the inputs that leave something behind if anything does
const R2_INPUTS = ['mod', 'notmod', 'syntax', 'cancelled', 'chained', 'twocomments', 'long', 'ext_b', 'param_p', 'literals']
// symbols of the depth-4 search of the thorough tier (the full alphabet is searched to depth 3)
const CORE = new Set(['R7:mod', 'R1:mod', 'R1:notmod', 'R1:syntax', 'R1:cancelled', 'R1:chained', 'R1:notmod_map', 'R1:twocomments', 'R1:twocomments_last_missing', 'R1:literals', 'R1:long', 'R1:ext_a', 'R1:ext_b', 'R1:param_p', 'R1:manyliterals', 'R2:mod', 'R2:cancelled', 'R2:chained', 'R2:long', 'R2:ext_b', 'R3:mod', 'R4:mod', 'R4:param_p', 'R4:param_zz', 'LOG:DEBUG', 'LOG:ERROR', 'R5:mod', 'R6:mod'])
function alphabet (tier) {
  const out = []
  for (const inp of Object.keys(INPUTS)) { out.push('R1:' + inp); if (R2_INPUTS.includes(inp)) out.push('R2:' + inp) }
  out.push('R3:mod'); out.push('R3:long')
  // a rewriter with a DIFFERENT configuration interleaved with the others
  out.push('R4:mod'); out.push('R4:long'); out.push('R4:chained'); out.push('R4:param_p'); out.push('R4:param_zz')
  // what another rewriter's setLogger does to the process (process-wide `log` logger and maximum level)
  out.push('LOG:DEBUG'); out.push('LOG:ERROR')
  // default (INFORMATION) verbosity next to them
  out.push('R5:mod'); out.push('R5:chained')
  // the empty string as prefix is a prefix like any other (not the random default)
  out.push('R6:mod'); out.push('R6:long')
  // same source names as R1/R2, other replacement names
  out.push('R7:mod')
  return out
}

async function build (tier) {
  const h = tier === 'thorough' ? 4 : 3
  const alpha = alphabet(tier)
  const r = histories(alpha, 3)
  const leaves = r.histories.map((hist) => ({ key: hist.join(' '), hist }))
  if (tier === 'thorough') {
    const core = alpha.filter((x) => CORE.has(x))
    const r4 = histories(core, 4)
    const seen = new Set(leaves.map((l) => l.key))
    for (const hist of r4.histories) { const key = hist.join(' '); if (!seen.has(key)) leaves.push({ key, hist }) }
    for (const k of Object.keys(r4.stats)) r.stats[k] = (r.stats[k] || 0) + r4.stats[k]
  }
  // repeated single calls (same call 25x in one process)
  for (const a of alpha) { leaves.push({ key: 'repeat ' + a, hist: Array(25).fill(a) }); r.stats.states++; r.stats.transitions++ }
  // the JavaScript wrappers (main.js) keep module-level state too: histories over {CacheRewriter, NonCacheRewriter}
  // instances through the real main.js, the native answers coming from the service
  const jsAlpha = []
  for (const cls of ['Rewriter#1', 'Rewriter#2', 'NonCacheRewriter#1']) for (const inp of ['mod', 'notmod', 'syntax', 'chained', 'long']) jsAlpha.push(cls + ':' + inp)
  const rj = histories(jsAlpha, tier === 'thorough' ? 4 : 3)
  for (const hist of rj.histories) leaves.push({ fam: 'js', key: 'js ' + hist.join(' '), hist })
  for (const k of Object.keys(rj.stats)) r.stats[k] = (r.stats[k] || 0) + rj.stats[k]
  return { leaves, stats: r.stats, bound: { history_length_full_alphabet: 3, history_length_core_alphabet: h, core_alphabet_size: tier === 'thorough' ? alpha.filter((x) => CORE.has(x)).length : 0, alphabet_size: alpha.length, repeats: 25, js_alphabet_size: jsAlpha.length }, alphabets: { calls: alpha, js_calls: jsAlpha } }
}

function reqOf (sym) {
  const [inst, inp] = sym.split(':')
  if (inst === 'LOG') return { op: 'logger', level: inp }
  return { rewriter: inst, config: INSTANCES[inst], file: INPUTS[inp].file, code: INPUTS[inp].code, vfs: INPUTS[inp].vfs || {} }
}

function normResult (r, inst) {
  const lit = r.literalsResult ? r.literalsResult.literals.map((l) => JSON.stringify([l.value, l.locations.map((x) => [x.ident, x.line, x.column]).sort()])).sort() : null
  let content = r.content
  let error = r.error
  if (inst === 'R3') {
    const re = /__datadog_[a-z]{6}_/g
    if (content) {
      // the embedded map does not mention the temporaries by name (names: []) but decode anyway to be safe
      content = content.replace(re, '__datadog_PREFIX_')
    }
    if (error) error = error.replace(re, '__datadog_PREFIX_')
  }
  return JSON.stringify({ status: r.status, content, error, metrics: r.metrics ? { s: r.metrics.status, n: r.metrics.instrumentedPropagation, f: r.metrics.file, d: r.metrics.propagationDebug ? Object.keys(r.metrics.propagationDebug).sort().map((k) => k + '=' + r.metrics.propagationDebug[k]) : null } : null, lit })
}

function firstDiff (a, b) { let i = 0; while (i < a.length && i < b.length && a[i] === b[i]) i++; return i }

const refs = new Map()
async function reference (sym) {
  if (!refs.has(sym)) {
    const [r] = await runOnce([reqOf(sym)])
    refs.set(sym, { norm: normResult(r, sym.split(':')[0]), status: r.status })
  }
  return refs.get(sym)
}

function requests (leaf) {
  if (leaf.fam !== 'js') return []
  return Array.from(new Set(leaf.hist.map((s) => s.split(':')[1]))).map((inp) => ({ id: inp, config: BASE, file: INPUTS[inp].file, code: INPUTS[inp].code }))
}

let bridge = null
async function checkJs (leaf, resps) {
  const res = { nontrivial: true, outcome: 'js', violations: [], evaluations: leaf.hist.length, distinctKey: leaf.key }
  if (!bridge) bridge = require('../lib/bridge')
  const main = bridge.loadMain()
  const byInp = {}
  for (const r of resps) { byInp[r.id] = r; bridge.provide(BASE, INPUTS[r.id].code, INPUTS[r.id].file, r) }
  const instances = {}
  leaf.hist.forEach((sym, i) => {
    const [who, inp] = sym.split(':')
    const cls = who.split('#')[0]
    if (!instances[who]) instances[who] = new main[cls](BASE)
    const native = byInp[inp]
    let out = null; let threw = null
    try { out = instances[who].rewrite(INPUTS[inp].code, INPUTS[inp].file) } catch (e) { threw = e }
    const where = `call ${i} (${sym}) of history [${leaf.key}]`
    if (native.status !== 'ok') {
      if (!threw) res.violations.push({ rule: 'js-history-dependent-result', sig: inp + ':no-throw', detail: `${where}: the native call fails (${native.status}) but the wrapper returned a result` })
      else if (String(threw.message) !== String(native.error)) res.violations.push({ rule: 'js-history-dependent-result', sig: inp + ':error-text', detail: `${where}: error text differs from the native one` })
      return
    }
    if (threw) { res.violations.push({ rule: 'js-history-dependent-result', sig: inp + ':threw', detail: `${where}: wrapper threw ${String(threw.message).slice(0, 100)}` }); return }
    const expectContent = native.metrics && native.metrics.status === 'notmodified' ? INPUTS[inp].code : native.content
    if (out.content !== expectContent) res.violations.push({ rule: 'js-history-dependent-result', sig: inp + ':content', detail: `${where}: content differs from what a single fresh call gives (length ${String(out.content).length} vs ${expectContent.length})` })
    if (JSON.stringify(out.metrics) !== JSON.stringify({ status: native.metrics.status, instrumentedPropagation: native.metrics.instrumentedPropagation, file: native.metrics.file, propagationDebug: native.metrics.propagationDebug || undefined })) res.violations.push({ rule: 'js-history-dependent-result', sig: inp + ':metrics', detail: `${where}: metrics ${JSON.stringify(out.metrics)} vs native ${JSON.stringify(native.metrics)}` })
    if (JSON.stringify(out.literalsResult) !== JSON.stringify(native.literalsResult || undefined)) res.violations.push({ rule: 'js-history-dependent-result', sig: inp + ':literals', detail: `${where}: literalsResult differs` })
  })
  if (res.violations.length) res.outcome = 'violation'
  res.sample = { js_history: leaf.hist }
  return res
}

async function check (leaf, preResps) {
  if (leaf.fam === 'js') return checkJs(leaf, preResps)
  const res = { nontrivial: true, outcome: 'ok', violations: [], evaluations: leaf.hist.length }
  const resps = await runOnce(leaf.hist.map(reqOf))
  const prefixes = {}
  for (let i = 0; i < leaf.hist.length; i++) {
    const sym = leaf.hist[i]
    const inst = sym.split(':')[0]
    const ref = await reference(sym)
    const got = normResult(resps[i], inst)
    if (resps[i].status === 'abort' || resps[i].status === 'timeout' || resps[i].status === 'panic') {
      res.violations.push({ rule: 'call-crashed', sig: sym.split(':')[1], detail: `call ${i} (${sym}) of history [${leaf.key}] ended with ${resps[i].status} ${resps[i].error || ''}` })
      break
    }
    if (got !== ref.norm) {
      const prev = leaf.hist.slice(0, i).map((s) => s.split(':')[1])
      const sameInst = leaf.hist.slice(0, i).some((s) => s.split(':')[0] === inst)
      res.violations.push({ rule: 'history-dependent-result', sig: `${sym.split(':')[1]} after ${prev.length ? prev[prev.length - 1] : 'nothing'} ${sameInst ? 'same-instance' : 'other-instance'}`, detail: `call ${i} (${sym}) of history [${leaf.key}] differs from a fresh single call\n  fresh : ${ref.norm.slice(0, 400)}\n  here  : ${got.slice(0, 400)}\n  first difference at char ${firstDiff(ref.norm, got)}: …${ref.norm.slice(Math.max(0, firstDiff(ref.norm, got) - 30), firstDiff(ref.norm, got) + 60)}… vs …${got.slice(Math.max(0, firstDiff(ref.norm, got) - 30), firstDiff(ref.norm, got) + 60)}…` })
      break
    }
    if (resps[i].prefix) {
      if (prefixes[inst] && prefixes[inst] !== resps[i].prefix) { res.violations.push({ rule: 'prefix-rerolled', sig: inst, detail: `rewriter ${inst} used prefix ${prefixes[inst]} and later ${resps[i].prefix} in history [${leaf.key}]` }); break }
      prefixes[inst] = resps[i].prefix
      if (inst === 'R3' && !/^[a-z]{6}$/.test(resps[i].prefix)) res.violations.push({ rule: 'default-prefix-shape', sig: 'R3', detail: `default prefix ${resps[i].prefix} is not six lowercase letters` })
    }
  }
  res.outcome = leaf.hist.map((s) => refs.get(s) ? refs.get(s).status : '?').join(',')
  if (res.violations.length) res.outcome = 'violation'
  res.sample = { history: leaf.hist.slice(0, 6), calls: leaf.hist.length }
  res.distinctKey = leaf.key
  return res
}

module.exports = {
  id: 'C16',
  build,
  requests,
  check,
  inflight: 4,
  rule: 'leaf = history (sequence of (rewriter instance, input) calls, length <= h, plus each call repeated 25x); each history runs in its own fresh process; non-trivial = every history (each compares >= 1 call with an independent fresh-process reference); distinct by the sequence',
  explanation: 'breadth-first enumeration of ALL call histories up to length 3 over the full alphabet (thorough: also up to length 4 over a 27-symbol core alphabet) (modified / not modified / syntax error / cancelled / chained / two map comments / literal-heavy / multi-block inputs on two same-config instances and one default-prefix instance); invariant after every call: result == fresh single call',
  assumptions: ['native process stands in for the wasm instance (process-wide statics behave alike)', 'contents under a default (random) prefix are compared after renaming __datadog_[a-z]{6}_ consistently', 'literal lists compared as sets (hash-map order is not part of the result)']
}
