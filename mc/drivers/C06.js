'use strict'
// C06 — injected temporaries are hygienic: declared, private, never clobbered while live.
const C = require('../grammar/configs')
const G = require('../grammar/space')
const F = require('../grammar/families')
const X = require('../oracles/exec')
const { enumerate, addStats } = require('../lib/explore')
const { scopeCheck } = require('../oracles/scope')
const { erase } = require('../oracles/erase')

// ---- family D: scope shapes and re-entrant histories (each a body of main(E)) ----------------------
const D_SHAPES = {
  rec_body: "function r(n) { return n > 0 ? h(n) + r(n - 1) : '!' } return r(3)",
  rec_body_tpl: "function r(n) { return n > 0 ? `${h(n)}${r(n - 1)}` : '!' } return r(3)",
  rec_body_call: "function r(n) { return n > 0 ? String(n).concat(r(n - 1)) : '!' } return r(3)",
  rec_param_default_fnexpr: "const r = function (n, p = h(n) + (n > 0 ? r(n - 1) : '!')) { return p }; return r(2)",
  rec_param_default_decl: "function r(n, p = `${h(n)}${n > 0 ? r(n - 1) : '!'}`) { return p } return r(2)",
  rec_param_default_method: "const ob = { m(n, p = String(n).concat(n > 0 ? ob.m(n - 1) : '!')) { return p } }; return ob.m(2)",
  rec_param_default_arrow: "const r = (n, p = h(n) + (n > 0 ? r(n - 1) : '!')) => p; return r(2)",
  rec_param_default_arrow_block: "const r = (n, p = h(n) + (n > 0 ? r(n - 1) : '!')) => { return p }; return r(2)",
  rec_param_default_arrow_block_tpl: "const r = (n, p = `${h(n)}${n > 0 ? r(n - 1) : '!'}`) => { const q = p; return q }; return r(2)",
  rec_param_pattern_default_arrow_block: "const r = (n, { p = String(n).concat(n > 0 ? r(n - 1) : '!') } = {}) => { return p }; return r(2)",
  param_default_arrow_block_called_in_operand: "const t = (n, p = h(n) + '!') => { return p }; return h(1) + t(2)",
  param_default_async_arrow_block: "const t = async (n, p = h(n) + '!') => { return p }; return Promise.all([t(1), t(2)]).then((v) => h(0) + v.join())",
  param_default_nested_arrow_block: "const mk = (n) => { return (q, p = h(q) + (q > 0 ? mk(n)(q - 1) : '!')) => { return p } }; return mk(1)(2)",
  mutual: "function e1(n) { return n > 0 ? h(n) + o1(n - 1) : 'e' } function o1(n) { return n > 0 ? h(n) + e1(n - 1) : 'o' } return e1(3)",
  callback: "function r(n) { return [1, 2].map((q) => h(q * n) + (n > 0 ? r(n - 1) : '!')).join(',') } return r(2)",
  class_field: "let d = 2; class L { v = h(d) + (d-- > 0 ? new L().v : '!') } return new L().v",
  class_static_field: "let d = 2; function mk() { const n = d; return class { static v = h(n) + (d-- > 0 ? mk().v : '!') } } return mk().v",
  class_computed_key: "let d = 2; function mk() { const n = d; return class { [h(n) + (d-- > 0 ? Object.keys(new (mk())())[0] : '!')] = 1 } } return Object.keys(new (mk())())",
  getter: "const ob = { d: 2, get v() { const n = this.d; return h(n) + (this.d-- > 0 ? this.v : '!') } }; return ob.v",
  generator_interleaved: "function* gen(n) { const v = h(n) + (yield n); return v } const i1 = gen(1), i2 = gen(2); i1.next(); i2.next(); return [i1.next('a').value, i2.next('b').value]",
  generator_tpl_interleaved: "function* gen(n) { return `${h(n)}${yield n}${h(n)}` } const i1 = gen(1), i2 = gen(2); i1.next(); i2.next(); return [i2.next('b').value, i1.next('a').value]",
  async_interleaved: "async function af(n, p) { const v = h(n) + (await p); return v } let r1, r2; const p1 = new Promise((r) => { r1 = r }), p2 = new Promise((r) => { r2 = r }); const a1 = af(1, p1), a2 = af(2, p2); r2('b'); r1('a'); return Promise.all([a1, a2])",
  async_method_interleaved: "async function af(n, p) { return String(n).concat(await p, h(n)) } let r1, r2; const p1 = new Promise((r) => { r1 = r }), p2 = new Promise((r) => { r2 = r }); const a1 = af(1, p1), a2 = af(2, p2); r2('b'); r1('a'); return Promise.all([a1, a2])",
  loop_closures: "const fs = []; for (let n = 0; n < 3; n++) { fs.push(() => h(n) + String(n * 2)) } return fs.map((q) => q())",
  loop_body_rec: "function r(n) { let out = ''; for (let q = 0; q < n; q++) { out = out + h(q) + r(q) } return out + '.' } return r(3)",
  while_test_rec: "function r(n) { let k2 = n; while ((h(k2) + r2(k2)).length > 1 && k2-- > 0) {} return k2 } function r2(n) { return n > 0 ? h(n) + r2(n - 1) : '' } return r(2)",
  switch_cases: "function r(n) { switch (n) { case 2: return h(n) + r(1); case 1: { return h(n) + r(0) } default: return '!' } } return r(2)",
  switch_case_test: "function r(n) { switch ('1!') { case h(n) + r2(n): return 'hit' + n; default: return n > 0 ? r(n - 1) : 'miss' } } function r2(n) { return n > 1 ? h(n) + r2(n - 1) : '!' } return r(2)",
  catch_clause: "function r(n) { try { if (n > 0) throw n; return '!' } catch (e) { return h(e) + r(n - 1) } } return r(2)",
  finally_clause: "function r(n) { let v = ''; try { v = 'x' } finally { v = h(n) + (n > 0 ? r(n - 1) : '!') } return v } return r(2)",
  labelled: "function r(n) { l1: { if (n === 0) break l1; return h(n) + r(n - 1) } return '!' } return r(2)",
  nested_blocks: "function r(n) { { { if (n > 0) { x = h(n) + r(n - 1); return x } } } return '!' } return r(2)",
  plus_assign_rec: "function r(n) { let acc = 'a'; if (n > 0) acc += h(n) + r(n - 1); return acc } return r(2)",
  member_assign_rec: "function g2(z) { return z } function r(n) { const ob = { p: 'p' }; if (n > 0) g2(ob).p += h(n) + r(n - 1); return ob.p } return r(2)",
  computed_assign_rec: "function r(n) { const ob = { p1: 'a', p0: 'b' }; if (n > 0) ob['p' + h(n - 1)] += r(n - 1); return ob.p1 + ob.p0 } return r(2)",
  chain_rec: "function r(n) { const ob = n > 0 ? { t: (q) => h(n) + q } : null; return ob?.t(r(n - 1)).concat('.') ?? '!' } return r(2)",
  chain_guard_rec: "function r(n) { const v = n > 0 ? { s: ' ' + n + ' ', k: r(n - 1) } : null; return (v?.s.trim() ?? 'null') + (v?.k ?? '') } return r(2)",
  arrow_concise_rec: "const r = (n) => n > 0 ? h(n) + r(n - 1) : '!'; return r(3)",
  arrow_in_arg_rec: "function r(n) { return n > 0 ? [0].map(() => h(n) + r(n - 1))[0] : '!' } return r(2)",
  iife_rec: "function r(n) { return (function () { return n > 0 ? h(n) + r(n - 1) : '!' })() } return r(2)",
  nested_ops_one_stmt: "function r(n) { return n > 0 ? (h(n) + (h(n + 10) + r(n - 1))).concat(h(n + 20) + `${h(n)}${r(n - 1)}`) : '!' } return r(2)",
  proto_call_rec: "function r(n) { return n > 0 ? String.prototype.concat.call(h(n), r(n - 1), h(n)) : '!' } return r(2)",
  spread_rec: "function r(n) { return n > 0 ? 'a'.concat(...[h(n), r(n - 1)], h(n)) : '!' } return r(2)",
  cond_both: "function r(n) { return (n % 2 ? h(n) + r2(n) : h(-n) + r2(n)) } function r2(n) { return n > 0 ? r(n - 1) : '!' } return r(3)"
}

// ---- family E: a reserved-prefix identifier N placed in user code -------------------------------------
const E_PLACEMENTS = {
  let_same_block: "let N = 'u'; x = OP; return [x, N]",
  const_same_block: "const N = 'u'; x = OP; return [x, N]",
  var_same_block: "var N = 'u'; x = OP; return [x, N]",
  let_outer_block: "let N = 'u'; { x = OP; } return [x, N]",
  let_outer_read_inner: "let N = 'u'; { x = OP + N; } return x",
  let_inner_block: "x = OP; { let N = 'u'; y = N } return [x, y]",
  fn_param_nested: "function q(N) { return OP + N } return q('u')",
  fn_param_nested_unused: "function q(N) { return OP } return q('u')",
  arrow_param_unused: "const q = (N) => { return OP }; return q('u')",
  catch_param_unused: "try { throw 'u' } catch (N) { x = OP } return x",
  fn_expr_name_unused: "const q = function N() { return OP }; return q()",
  fn_param_nested_body_only: "function q(N) { return N } x = OP; return [x, q('u')]",
  arrow_param: "const q = (N) => OP + N; return q('u')",
  arrow_block_param: "const q = (N) => { return OP + N }; return q('u')",
  method_param: "return ({ m(N) { return OP + N } }).m('u')",
  catch_param: "try { throw 'u' } catch (N) { x = OP + N } return x",
  fn_name: "function N() { return 'u' } x = OP; return [x, N()]",
  fn_expr_name: "const q = function N() { return OP + typeof N }; return q()",
  class_name: "class N { static v = 'u' } x = OP; return [x, N.v]",
  label: "N: { x = OP; break N } return x",
  destructuring: "let { p: N } = { p: 'u' }; x = OP; return [x, N]",
  array_destructuring: "let [N] = ['u']; x = OP; return [x, N]",
  assign_target: "x = OP; N = 'u'; return [x, typeof N]",
  free_read: "x = OP; return [x, typeof N === 'undefined' ? 'undef' : N]",
  free_read_same_expr: "x = OP + (typeof N === 'undefined' ? 'undef' : N); return x",
  closure_capture: "x = OP; return [x, (() => typeof N === 'undefined' ? 'undef' : N)()]",
  property_name: "x = OP; return [x, ({ N: 'u' }).N]",
  member_access: "x = OP; return [x, o.N]",
  string_content: "x = OP + 'N'; return x",
  template_content: "x = OP + `N`; return x"
}
const E_FILE_LEVEL = {
  top_fn_param_unused: (N, op) => `function main(E, N) { ${G.PRE}  x = ${op}; return x\n}`,
  top_fn_rest_param_unused: (N, op) => `function main(E, ...N) { ${G.PRE}  x = ${op}; return x\n}`,
  top_fn_destructured_param_unused: (N, op) => `function main(E, { N } = {}) { ${G.PRE}  x = ${op}; return x\n}`,
  top_fnexpr_param_unused: (N, op) => `var main = function (E, N) { ${G.PRE}  x = ${op}; return x\n}`,
  top_arrow_param_unused: (N, op) => `var main = (E, N) => { ${G.PRE}  x = ${op}; return x\n}`,
  top_method_param_unused: (N, op) => `var main = ({ m(E, N) { ${G.PRE}  x = ${op}; return x\n} }).m`,
  top_class_method_param_unused: (N, op) => `class K { static m(E, N) { ${G.PRE}  x = ${op}; return x\n} }\nvar main = K.m`,
  top_fn_name_is_reserved: (N, op) => `var main = function N(E) { ${G.PRE}  x = ${op}; return x\n}`,
  top_fn_param:  (N, op) => `function main(E, N = 'u') { ${G.PRE}  x = ${op}; return [x, N]\n}`,
  top_var: (N, op) => `var N = 'u';\nfunction main(E) { ${G.PRE}  x = ${op}; return [x, N]\n}`,
  top_const: (N, op) => `const N = 'u';\nfunction main(E) { ${G.PRE}  x = ${op}; return [x, N]\n}`,
  top_fn_name: (N, op) => `function N() { return 'u' }\nfunction main(E) { ${G.PRE}  x = ${op}; return [x, N()]\n}`,
  top_arrow_param: (N, op) => `const q = (N) => N;\nfunction main(E) { ${G.PRE}  x = ${op}; return [x, q('u')]\n}`,
  top_fn_param_used_in_body: (N, op) => `function q(N, a, f) { return ${op} + N }\nfunction main(E) { ${G.PRE}  return q('u', a, f)\n}`,
  top_method_param: (N, op) => `const ob = { m(N, a, f) { return ${op} + N } };\nfunction main(E) { ${G.PRE}  return ob.m('u', a, f)\n}`,
  top_class_method_param: (N, op) => `class K { m(N, a, f) { return ${op} + N } }\nfunction main(E) { ${G.PRE}  return new K().m('u', a, f)\n}`,
  other_function: (N, op) => `function other(N) { return N }\nfunction main(E) { ${G.PRE}  x = ${op}; return [x, other('u')]\n}`
}
const E_SUFFIXES = ['__datadog_p_0', '__datadog_p_1', '__datadog_p_9', '__datadog_p_x', '__datadog_p_', '__datadog_q_0', '__datadog_', '__datadog_p_00']
const E_OPS = { t0: 'a + b', t2: 'a + f()', t4: 'a.concat(f(), o.p)' }

// family E: every placement of a reserved-prefix identifier x spelling x operation (shared with C08)
function familyE () {
  const r = enumerate([{ name: 'place', symbols: Object.keys(E_PLACEMENTS).concat(Object.keys(E_FILE_LEVEL)), free: true }, { name: 'name', symbols: E_SUFFIXES, free: true }, { name: 'op', symbols: Object.keys(E_OPS), free: true }], {})
  return {
    leaves: r.leaves.map((l) => {
      const N = l.pick.name; const op = E_OPS[l.pick.op]
      const code = E_PLACEMENTS[l.pick.place] ? G.SCOPES.sloppy(E_PLACEMENTS[l.pick.place].replace(/\bN\b/g, N).replace(/OP/g, op)) : E_FILE_LEVEL[l.pick.place]('N', op).replace(/\bN\b/g, N)
      return { fam: 'E', key: 'E¦' + l.pick.place + '¦' + N + '¦' + l.pick.op, code, place: l.pick.place, name: N, config: 'FULL' }
    }),
    stats: r.stats
  }
}

// family E2: prefixes that are identifier-safe but not plain ASCII x every way the input can spell a name NEAR the
// reserved one (the exact name, the same name through a unicode escape, the prefix with its special characters
// replaced, folded or changed in case): whatever name the temporaries get, it is either refused or private
const E2_PREFIXES = ['tëst', 'Ünï', 'p$q', 'ñ', 'T']
const E2_VARIANTS = {
  exact: (p) => p,
  escaped: (p) => Array.from(p).map((ch) => /[A-Za-z0-9_$]/.test(ch) ? ch : '\\u{' + ch.codePointAt(0).toString(16) + '}').join(''),
  underscored: (p) => p.replace(/[^A-Za-z0-9]/g, '_'),
  folded: (p) => p.normalize('NFD').replace(/[\u0300-\u036f]/g, ''),
  nfd: (p) => p.normalize('NFD'),
  lower: (p) => p.toLowerCase(),
  upper: (p) => p.toUpperCase(),
  dropped: (p) => p.replace(/[^A-Za-z0-9]/g, '')
}
function familyE2 () {
  const leaves = []
  const stats = { states: 0, transitions: 0 }
  const places = Object.keys(E_PLACEMENTS).concat(Object.keys(E_FILE_LEVEL))
  for (const prefix of E2_PREFIXES) for (const [vn, vf] of Object.entries(E2_VARIANTS)) for (const idx of ['0', '1']) for (const place of places) {
    const N = '__datadog_' + vf(prefix) + '_' + idx
    if (vn !== 'exact' && vf(prefix) === prefix) continue
    const op = E_OPS.t2
    stats.states++; stats.transitions++
    const code = E_PLACEMENTS[place] ? G.SCOPES.sloppy(E_PLACEMENTS[place].replace(/\bN\b/g, () => N).replace(/OP/g, op)) : E_FILE_LEVEL[place]('N', op).replace(/\bN\b/g, () => N)
    leaves.push({ fam: 'E', key: 'E2¦' + prefix + '¦' + vn + '¦' + idx + '¦' + place, code, place: place + ':' + prefix + ':' + vn, name: N, config: Object.assign({}, C.FULL, { localVarPrefix: prefix }) })
  }
  return { leaves, stats }
}

async function build (tier) {
  let leaves = []
  let stats = { states: 1, transitions: 0 }
  const add = (r) => { leaves = leaves.concat(r.leaves); stats = addStats(stats, r.stats) }
  add(F.all(tier, { families: ['A', 'B', 'C', 'G', 'M', 'S', 'T', 'H', 'Q', 'R', 'N', 'L', 'K'], B: { k: tier === 'thorough' ? 2 : 1 } }))
  {
    const r = enumerate([{ name: 'shape', symbols: Object.keys(D_SHAPES), free: true }, { name: 'scope', symbols: ['sloppy', 'strict_fn', 'module'], free: tier === 'thorough' }, { name: 'reenter', symbols: [false, true], free: true }], { k: 0 })
    add({ leaves: r.leaves.map((l) => ({ fam: 'D', key: 'D¦' + l.pick.shape + '¦' + l.pick.scope + '¦' + l.pick.reenter, code: G.SCOPES[l.pick.scope](D_SHAPES[l.pick.shape]), shape: l.pick.shape, reenter: l.pick.reenter, config: 'FULL' })), stats: r.stats })
    // hook re-entrancy on representative operations in the neutral context
    const r2 = enumerate([{ name: 'op', symbols: F.REP_OPS.map((o) => o.tpl), free: true }, { name: 'sctx', symbols: ['expr', 'while_body', 'class_method', 'closure_in_loop', 'generator'], free: true }], {})
    add({ leaves: r2.leaves.map((l) => ({ fam: 'D', key: 'Dh¦' + l.pick.op + '¦' + l.pick.sctx, code: G.render({ op: l.pick.op, exprctx: '@@', stmtctx: l.pick.sctx, scope: 'sloppy' }), shape: 'hook-reentry:' + l.pick.sctx, reenter: true, config: 'FULL' })), stats: r2.stats })
  }
  add(familyE())
  add(familyE2())
  { // real library files: static scope / liveness analysis only
    const S = require('../lib/static_driver')
    const c = S.corpusLeaves(tier, ['FULL'], tier === 'thorough' ? 0 : 60)
    add({ leaves: c.leaves.map((l) => Object.assign(l, { fam: 'corpus', code: S.leafCode(l) })), stats: c.stats })
  }
  return { leaves, stats, bound: { static_families: 'A,B(k=' + (tier === 'thorough' ? 2 : 1) + '),C,G', d_shapes: Object.keys(D_SHAPES).length, e_placements: Object.keys(E_PLACEMENTS).length + Object.keys(E_FILE_LEVEL).length, e_names: E_SUFFIXES.length }, alphabets: { d_shapes: Object.keys(D_SHAPES), e_placements: Object.keys(E_PLACEMENTS).concat(Object.keys(E_FILE_LEVEL)), e_names: E_SUFFIXES } }
}

function leafCode (leaf) { return leaf.code !== undefined ? leaf.code : G.render(leaf) }
function requests (leaf) { return [{ config: typeof leaf.config === 'object' ? leaf.config : C[leaf.config], file: '/p/app.js', code: leafCode(leaf), want: ['parseIn', 'astOut'] }] }

async function execDiff (leaf, r, code, v, reenter, tier) {
  const kind = r.parseIn && r.parseIn.kind === 'module' ? 'module' : 'script'
  let inCtx, outCtx
  try { inCtx = await X.compile(code, kind, '/p/app.js') } catch (e) { return 'input-invalid-for-v8' }
  let depth = 0
  const budget = { n: 0 } // re-entries per run (async continuations run at depth 0, so depth alone does not bound them)
  const pre = reenter
    ? (c) => {
        c._ddiast = new Proxy({}, {
          get: (t, name) => (res, ...ops) => {
            if (depth === 0 && budget.n < 4 && typeof c.main === 'function') {
              depth++; budget.n++
              try { const again = X.makeEnv(X.BASE_ENV); c.main.call(again.self, again.E) } catch (e) {} finally { depth-- }
            }
            return res
          }
        })
      }
    : undefined
  try { outCtx = await X.compile(r.content, kind, '/p/app.js', pre) } catch (e) { v('content-does-not-compile', leaf.fam + ':' + (leaf.place || leaf.shape), String(e).slice(0, 160)); return 'violation' }
  for (const spec of X.envVariants(code, tier).slice(0, 6)) {
    const a1 = await X.runOne(inCtx, spec)
    const a2 = await X.runOne(inCtx, spec)
    if (!X.sameObs(a1, a2, false).same) continue
    budget.n = 0
    let b = await X.runOne(outCtx, spec)
    if (b.result.startsWith('machinery')) b = await X.runOne(outCtx, spec, null, 20000)
    // with re-entrant hooks the nested activations add events of their own: compare results only
    const cmp = reenter ? { same: a1.result === b.result, why: 'result', a: a1.result, b: b.result } : X.sameObs(a1, b, true)
    if (!cmp.same) { v(reenter ? 'exec-diff-under-reentrant-hooks' : 'exec-diff', (leaf.shape || leaf.place || leaf.op) + (leaf.name ? ':' + leaf.name : ''), `env=${JSON.stringify(spec)} ${cmp.why}\n  input : ${cmp.a}\n  output: ${cmp.b}`); return 'violation' }
  }
  return 'ok'
}

async function check (leaf, resps, ctx) {
  const r = resps[0]
  const code = leafCode(leaf)
  const res = { nontrivial: false, outcome: leaf.fam + ':' + r.status, violations: [], distinctKey: code }
  const v = (rule, sig, detail) => res.violations.push({ rule, sig, detail: detail + '\n  leaf: ' + leaf.key.slice(0, 200) + '\n' + code.split('\n').slice(-3).join('\n').slice(0, 400) })
  if (leaf.fam === 'E') {
    res.nontrivial = true
    if (r.status === 'err') { res.outcome = /Variable name duplicated/.test(r.error) ? 'E:refused' : 'E:rejected'; return res }
    if (r.status !== 'ok') return res
    if (!r.content) { res.outcome = 'E:notmodified'; return res }
    res.outcome = 'E:rewritten'
    await execDiff(leaf, r, code, v, false, ctx.tier)
    if (res.violations.length) res.outcome = 'violation'
    res.sample = { placement: leaf.place, name: leaf.name, outcome: res.outcome }
    return res
  }
  if (r.status !== 'ok' || !r.content) { res.outcome = leaf.fam + ':' + (r.status === 'ok' ? 'notmodified' : 'rejected'); return res }
  if (!r.reparse || !r.reparse.ok) { res.outcome = 'content-unparsable'; return res }
  const sc = scopeCheck(r.reparse.ast, r.prefix)
  res.nontrivial = sc.uses > 0
  for (const p of sc.problems) v(p.rule, p.sig, p.detail)
  // assigned-before-read / single sequence: the erasure reports reads outside the assigning sequence
  const e = erase(r.reparse.ast, r.prefix)
  for (const p of e.problems) if (['temp-outside-sequence', 'temp-assigned-twice', 'guard-var-foreign'].includes(p.rule)) v(p.rule, p.sig, p.detail)
  if (leaf.fam === 'D') {
    const o = await execDiff(leaf, r, code, v, leaf.reenter, ctx.tier)
    res.outcome = 'D:' + o
  } else res.outcome = leaf.fam + ':static-ok'
  if (res.violations.length) res.outcome = 'violation'
  res.sample = { family: leaf.fam, leaf: leaf.key.slice(0, 160), temp_uses: sc.uses }
  return res
}

module.exports = {
  familyE,
  id: 'C06',
  build,
  requests,
  check,
  inflight: 8,
  rule: 'leaf = program of families A,B,C,G (static scope analysis of every reserved-prefix identifier), D (39 scope / re-entrancy shapes x identity or re-entering hooks, executed), E (35 placements of a reserved-prefix identifier x 8 names x 3 operations), E2 (5 identifier-safe non-ASCII / odd prefixes x 8 spellings near the reserved name x 2 indices x the same placements), families M,S,T,H,Q,R,N,L,K as for A; non-trivial = content mentions at least one temporary (A-D) / always (E); distinct by program text',
  explanation: 'explicit enumeration; static oracle resolves every temporary occurrence to an injected let without crossing an activation boundary and checks liveness (no nested reassignment); dynamic oracle = differential execution of recursion / generator / async / closure / hook re-entry histories; family E must be refused or behave identically',
  assumptions: ['hook re-entry is modelled by hooks that call main again with a fresh environment and discard the result', 'values limited to G7']
}
