'use strict'
// C12 — unmodified files are reported as such and handed back byte for byte; "modified" always
// comes with a hook, the prologue and an embedded map.
const { mk } = require('../lib/static_driver')
const bridge = require('../lib/bridge')
const C = require('../grammar/configs')
const { enumerate } = require('../lib/explore')

const NOTMOD_BODIES = {
  literal_sums: "function f() { let x = 'a' + 'b'; let y = 1 + 2; return x + 'c' }".replace("x + 'c'", "'z'"),
  toplevel_ops: 'var a = b + c; var t = `${a}`; var u = a.trim();',
  toplevel_arrow: 'const f = (a, b) => a + b.trim();',
  toplevel_class_field: 'class K { q = a + b; static r = `${a}` }',
  delete_operand: 'function f(o, a, b) { return delete o[a + b] }',
  arrow_param_default: 'function f(a, b) { return ((p = a + b) => p)() }',
  only_expr_arrows: 'function f(a) { const g = (q) => q; const h = () => ({ k: 1 }); return g(h()) }',
  chains_without_methods: 'function f(o) { return o?.q.r?.(1)?.[2] }',
  chain_prototype: 'function f(a) { return a?.prototype.trim() }',
  unconfigured_methods: 'function f(a) { return a.toUpperCase().split(1).join(2) }',
  tpl_with_literal: 'function f(a) { return `${1}${a}` }',
  tagged_tpl: 'function f(a, t) { return t`x${a}y` }',
  tpl_without_substitution: 'function f() { return `hello world` }',
  tpl_multiline_constant: 'function f() { const q = `line one\nline two\n`; return q.length }',
  tpl_constant_in_call: 'function f(h) { return h(`x`, `y`) }',
  minus: 'function f(a, b) { a -= b; return a - b * 2 }',
  literal_receiver: "function f() { return 'abc'.trim() + 'x' }".replace(" + 'x'", ''),
  empty: '',
  only_comment: '// nothing here\n',
  directive_only: "'use strict';\n"
}
const BYTE_VARIANTS = {
  plain: (s) => s,
  crlf: (s) => s.replace(/\n/g, '\r\n') + '\r\n',
  bom: (s) => '﻿' + s,
  no_final_newline: (s) => s.replace(/\n+$/, ''),
  final_newlines: (s) => s + '\n\n\n',
  trailing_spaces: (s) => s + '   \t ',
  leading_blank: (s) => '\n\n  ' + s,
  bmp: (s) => '/* ñandú € */ ' + s + " // ‘quoted’ “text”",
  tabs: (s) => s.replace(/ /g, '\t')
}

let main = null

module.exports = mk({
  id: 'C12',
  families: ['A', 'B', 'C', 'M', 'S', 'T', 'Q', 'R', 'N', 'L'],
  familyOpts: (tier) => ({ B: { k: tier === 'thorough' ? 2 : 1 } }),
  extra: async (tier) => {
    const dims = [
      { name: 'body', symbols: Object.keys(NOTMOD_BODIES), free: true },
      { name: 'bytes', symbols: Object.keys(BYTE_VARIANTS), free: true },
      { name: 'config', symbols: ['FULL', 'NOTHING', 'COMMENTS', 'PLUS_ONLY', 'METHODS_ONLY'], free: true }
    ]
    const r = enumerate(dims, {})
    const leaves = r.leaves.map((l) => ({ fam: 'notmod', key: 'nm¦' + l.pick.body + '¦' + l.pick.bytes + '¦' + l.pick.config, code: BYTE_VARIANTS[l.pick.bytes](NOTMOD_BODIES[l.pick.body]), config: l.pick.config, desc: 'notmod:' + l.pick.body + ':' + l.pick.bytes }))
    // modified bodies under the same byte variants (status must say modified, trailer present)
    const mods = ['function f(a, b) { return a + b }', 'function f(a) {\n  return a.trim()\n}\n', 'function f(s) { return s?.trim() }']
    for (const m of mods) for (const b of Object.keys(BYTE_VARIANTS)) for (const cfg of ['FULL', 'NOTHING']) { r.stats.states++; r.stats.transitions++; leaves.push({ fam: 'mod', key: 'md¦' + m + '¦' + b + '¦' + cfg, code: BYTE_VARIANTS[b](m), config: cfg, desc: 'mod:' + b }) }
    // modified / not-modified bodies that carry a map reference of every kind, chaining on and off: the status,
    // the prologue and the embedded map must not depend on whether the referenced map is usable
    const b64 = (x) => Buffer.from(x, 'utf8').toString('base64')
    const VALID = JSON.stringify({ version: 3, sources: ['o.ts'], names: [], mappings: 'AAAA;AACA;AACA' })
    const REFS = { none: '', missing: '\n//# sourceMappingURL=nowhere.js.map', inline_valid: '\n//# sourceMappingURL=data:application/json;base64,' + b64(VALID), inline_not_a_map: '\n//# sourceMappingURL=data:application/json;base64,' + b64('not a map'), bad_b64: '\n//# sourceMappingURL=data:application/json;base64,@@@=', empty_map: '\n//# sourceMappingURL=data:application/json;base64,' + b64(JSON.stringify({ version: 3, sources: [], names: [], mappings: '' })), block: '\n/*# sourceMappingURL=nowhere.js.map */', two: '\n//# sourceMappingURL=a.map\n//# sourceMappingURL=b.map' }
    for (const body of mods.concat([NOTMOD_BODIES.literal_sums, NOTMOD_BODIES.minus])) for (const ref of Object.keys(REFS)) for (const chain of [true, false]) for (const comments of [true, false]) {
      r.stats.states++; r.stats.transitions++
      leaves.push({ fam: 'mapref', key: 'mr¦' + body + '¦' + ref + '¦' + chain + '¦' + comments, code: body + REFS[ref] + '\n', config: Object.assign({}, C.FULL, { chainSourceMap: chain, comments }), desc: 'mapref:' + ref + ':' + chain })
    }
    // status logic must not depend on the telemetry implementation chosen by the verbosity
    const F = require('../grammar/families')
    for (const fam of [F.familyS(tier, tier === 'thorough' ? {} : { L: 2 }), F.familyM(tier)]) {
      for (const l of fam.leaves) for (const verb of ['OFF', 'DEBUG', 'MANDATORY']) { r.stats.states++; r.stats.transitions++; leaves.push(Object.assign({}, l, { key: l.key + '¦verb=' + verb, config: Object.assign({}, C.FULL, { telemetryVerbosity: verb }) })) }
    }
    return { leaves, stats: r.stats }
  },
  oracle ({ a, v, res, resp, leaf, config, code }) {
    if (resp.status !== 'ok') return
    const m = resp.metrics
    if (!m) { v('no-metrics', 'none', 'no metrics/status in result'); return }
    res.nontrivial = true
    const hooks = a.erasure ? a.erasure.hooks.length : 0
    if (m.status === 'notmodified') {
      if (resp.content !== '') v('notmodified-with-content', 'raw', `status notmodified but the raw result carries ${resp.content.length} characters of code`)
    } else if (m.status === 'modified') {
      if (a.contentUnparsable) { v('modified-unparsable', 'reparse', 'modified content does not re-parse: ' + String(a.contentUnparsable).slice(0, 120)); return }
      if (hooks === 0) v('modified-without-hook', 'nohook', 'status modified but the content contains no hook call')
      if (!a.erasure || !a.erasure.prologue) v('modified-without-prologue', 'noprologue', 'status modified but the content has no `if (typeof _ddiast === \'undefined\')` prologue')
      else {
        // THE prologue of this result: it provides a pass-through for every hook the content calls (a prologue
        // built for another configuration is not the prologue of this result)
        const defined = new Set()
        ;(function w (n) { if (Array.isArray(n)) { n.forEach(w); return } if (n === null || typeof n !== 'object') return; if (n.type === 'KeyValueProperty' && n.key && n.key.type === 'Identifier') defined.add(n.key.value); for (const k of Object.keys(n)) if (k[0] !== '$') w(n[k]) })(a.erasure.prologue)
        const missing = Array.from(new Set(a.erasure.hooks.map((h) => h.name))).filter((n) => n !== '<computed>' && /^[A-Za-z_$][\w$]*$/.test(n) && !defined.has(n))
        if (missing.length) v('modified-without-prologue', 'foreign-prologue', `status modified but the prologue in the content defines {${Array.from(defined).join(',')}} and not the hook(s) the content calls: ${missing.join(',')}`)
      }
      const lines = resp.content.trimEnd().split('\n')
      const last = lines[lines.length - 1]
      if (!last.startsWith('//# sourceMappingURL=data:application/json;base64,')) v('modified-without-map', 'nomap', 'status modified but the last line is not an inline source map trailer: ' + last.slice(0, 80))
      else { try { const j = JSON.parse(Buffer.from(last.slice(last.indexOf('base64,') + 7), 'base64').toString('utf8')); if (j.version !== 3) v('modified-bad-map', 'version', 'embedded map is not version 3') } catch (e) { v('modified-bad-map', 'json', 'embedded map does not decode: ' + e.message) } }
    } else v('status-string', String(m.status), 'unexpected status ' + m.status)
    // generator-known: the bodies of the `notmod` family hold nothing that any configuration instruments
    if (leaf.fam === 'notmod' && m.status !== 'notmodified') v('modified-without-enabled-operation', String(leaf.key).split('¦')[1], `the input holds no operation to instrument but the file is reported ${m.status} (${hooks} hook call(s) in the content)`)
    if (leaf.config === 'NOTHING' && m.status !== 'notmodified') v('modified-with-empty-method-list', 'nothing', 'empty method list but status is ' + m.status)
    // the requirement function: any REQUIRED operation => must be modified
    if (a.reqs && m.status === 'notmodified' && a.reqs.some((q) => q.must === 'REQUIRED')) v('notmodified-with-required-operation', a.reqs.find((q) => q.must === 'REQUIRED').kind, 'input contains an operation that must be instrumented but the file is reported not modified')
    // package level: main.js wrappers must hand back the caller's text byte for byte
    if (!main) main = bridge.loadMain()
    const file = leaf.file || '/p/app.js'
    bridge.forget()
    bridge.provide(config, code, file, resp)
    for (const cls of ['NonCacheRewriter', 'Rewriter']) {
      let out
      try { out = new main[cls](config).rewrite(code, file) } catch (e) { v('wrapper-threw', cls, `${cls}.rewrite threw ${e.message.slice(0, 100)}`); continue }
      if (m.status === 'notmodified') {
        if (out.content !== code) v('wrapper-not-bytewise', cls, `${cls}.rewrite returned content that differs from the source for a not-modified file (lengths ${String(out.content).length} vs ${code.length})`)
      } else if (out.content !== resp.content) v('wrapper-altered-content', cls, `${cls}.rewrite altered the rewritten content`)
      if (!out.metrics || out.metrics.status !== m.status) v('wrapper-status', cls, `${cls}.rewrite reports status ${out.metrics && out.metrics.status} for native status ${m.status}`)
    }
  },
  bound: (tier) => ({ notmodified_bodies: Object.keys(NOTMOD_BODIES).length, byte_variants: Object.keys(BYTE_VARIANTS).length, context_deviations_k: tier === 'thorough' ? 2 : 1 }),
  rule: 'leaf = program of families A,B,C, or (not-modified body x byte-level variant x config), or (modified body x byte variant x config), bodies with map references of every kind, families S and M under three verbosities; every leaf goes through the native call AND through main.js NonCacheRewriter/CacheRewriter; non-trivial = the call returned a result with a status; distinct by (text, config)',
  explanation: 'explicit enumeration; oracle = status vs content consistency (hooks counted by annotated erasure), requirement function for the modified direction, byte comparison through the real main.js wrappers',
  assumptions: ['main.js is the real file from the repository; the wasm class it loads is a stand-in answering from the native service (bridge.js)']
})
