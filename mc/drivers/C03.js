'use strict'
// C03 — every hook call receives the true result and the true operands, in order.
// Static: the operand list of every `_ddiast.<name>(first, rest…)` mirrors the operands used inside
// `first`, each operand is a literal / identifier / (…)temporary, spreads come from one fresh copy.
// Dynamic: the content runs in V8 with *recording* hooks; for every hook invocation the operation is
// recomputed from the operands it was handed (logging muted) and must give the value it was handed.
const { mk } = require('../lib/static_driver')
const X = require('../oracles/exec')

// (kept-ident-before-effect: an identifier operand handed to the hook is read AFTER a later operand ran code that may
// reassign it - the hook is told about a value the original operation never saw)
const C03_RULES = new Set(['hook-operands', 'hook-arg-not-simple', 'hook-arg-spread', 'spread-not-materialised', 'kept-ident-before-effect', 'temp-order'])

function sameValue (w, a, b) {
  if (a === b || (a !== a && b !== b)) return true // eslint-disable-line no-self-compare
  return w.canon(a) === w.canon(b)
}

async function dynamic ({ leaf, resp, a, v, code, ctx }) {
  const cm = a.cm
  let world = null
  const problems = []
  const hooks = new Proxy({}, {
    get (t, name) {
      if (typeof name !== 'string') return undefined
      return function (res, ...ops) {
        const w = world
        const was = w.muted
        w.muted = true
        try {
          let kind = 'method'
          if (name === cm.plus) kind = 'plus'
          else if (name === cm.tpl) kind = 'tpl'
          if (kind === 'plus') {
            if (ops.length !== 2) problems.push({ sig: 'plus-arity', d: `${name} called with ${ops.length} operands` })
            else if (!sameValue(w, ops[0] + ops[1], res)) problems.push({ sig: 'plus-result', d: `${name}: result ${w.canon(res)} is not ${w.canon(ops[0])} + ${w.canon(ops[1])}` })
          } else if (kind === 'tpl') {
            if (typeof res !== 'string') problems.push({ sig: 'tpl-result-type', d: `${name}: result is not a string` })
            else {
              let pos = 0
              for (const o of ops) { const s = String(o); const i = res.indexOf(s, pos); if (i < 0) { problems.push({ sig: 'tpl-operand', d: `${name}: operand ${w.canon(o)} does not occur (in order) in the result ${JSON.stringify(res)}` }); break } pos = i + s.length }
            }
          } else {
            const fn = ops[0]
            // (a spread this-argument may expand to nothing: the receiver is then undefined)
            if (ops.length < 1) problems.push({ sig: 'method-arity', d: `${name} called without the invoked function` })
            else if (typeof fn !== 'function') problems.push({ sig: 'method-fn', d: `${name}: second argument is not the function that was invoked (${w.canon(fn)})` })
            else if (fn.name === 'eval' && ops[1] === undefined) {
              // a direct eval runs in the caller's scope: applying the function here would be an indirect one
            } else {
              let exp; let threw = false
              try { exp = Reflect.apply(fn, ops[1], ops.slice(2)) } catch (e) { threw = true }
              if (threw || !sameValue(w, exp, res)) problems.push({ sig: 'method-result', d: `${name}: result ${w.canon(res)} is not fn.apply(receiver, args) = ${threw ? 'throw' : w.canon(exp)} for receiver ${w.canon(ops[1])} args ${w.canon(ops.slice(2))}` })
            }
          }
        } finally { w.muted = was }
        return res
      }
    }
  })
  let outCtx
  try { outCtx = await X.compile(resp.content, a.kind === 'module' ? 'module' : 'script', '/p/app.js', (c) => { c._ddiast = hooks }) } catch (e) { return 0 }
  let n = 0
  // quick tier: the generated families take the 4 most discriminating environments, the others all of them
  let envs = X.envVariants(code, ctx.tier)
  // (quick: nested schemas and statement sequences the 8 most discriminating ones)
  if (ctx.tier !== 'thorough' && leaf && 'HQRNLTK'.includes(leaf.fam)) envs = envs.slice(0, 4)
  else if (ctx.tier !== 'thorough' && leaf && (leaf.fam === 'C' || leaf.fam === 'S')) envs = envs.slice(0, 8)
  for (const spec of envs) {
    await X.runOne(outCtx, spec, (w) => { world = w })
    n++
    if (problems.length) {
      const p = problems[0]
      v('hook-dynamic', p.sig, `env=${JSON.stringify(spec)} ${p.d}`)
      break
    }
  }
  return n
}

module.exports = mk({
  id: 'C03',
  families: ['A', 'C', 'B', 'M', 'S', 'P', 'T', 'H', 'Q', 'R', 'N', 'L', 'K'],
  // real library files: the same static oracle on syntax nobody wrote an expectation for
  corpus: { configs: ['FULL', 'RENAMED'], quickLimit: 60 },
  familyOpts: (tier) => ({ B: { k: tier === 'thorough' ? 2 : 1 }, H: tier === 'thorough' ? {} : { L: 2 }, R: tier === 'thorough' ? {} : { rhs: ['b', 'f()', 'a + b'] } }),
  async oracle (o) {
    const { a, v, res } = o
    if (!a.modified || a.contentUnparsable || a.inputUnparsable) return
    res.nontrivial = a.erasure.hooks.length > 0
    // the mirror rule only proves "operands == what the wrapped expression uses"; they are the ORIGINAL
    // operands only if the wrapped expression erases to the input operation
    const ORIGIN_RULES = new Set(['temp-self-reference', 'temp-nonlinear', 'temp-unused', 'temp-outside-sequence'])
    for (const p of a.erasure.problems) if (ORIGIN_RULES.has(p.rule)) v('operands-not-the-original-ones', p.rule, p.detail)
    if (a.mismatches && a.mismatches.length && a.erasure.hooks.length) v('operands-not-the-original-ones', 'erasure-differs-from-input', `the instrumented expression does not erase to the input operation (${a.mismatches[0].why} at ${a.mismatches[0].path}: ${a.mismatches[0].a} vs ${a.mismatches[0].b})`)
    let staticProblems = 0
    for (const p of a.erasure.problems) if (C03_RULES.has(p.rule)) { staticProblems++; v(p.rule, p.sig + (a.cm.plus ? ' cfg-plus-on' : ' cfg-plus-off'), p.detail) }
    // the dynamic oracle would only repeat a statically located defect
    res.evaluations = 1 + ((staticProblems || o.leaf.corpusFile) ? 0 : await dynamic(o))
  },
  bound: (tier) => ({ nesting_depth: 2, context_deviations_k: tier === 'thorough' ? 2 : 1, envs: 'baseline + one-at-a-time deviations + 3 pairs' }),
  rule: 'leaf = program of families A (every operand atom in every slot of every schema), C (every schema nested in every slot), B (contexts, k deviations); non-trivial = at least one hook call site in the content; distinct by (text, config)',
  explanation: 'explicit enumeration; static oracle on every hook call site (operand list mirrors the wrapped expression) + dynamic oracle: recording hooks recompute the operation from the operands for every invocation in every environment',
  assumptions: ['plus-disabled configurations leave a non-literal `+` operand out of the enclosing hook (pinned by the repo test test_plus_operator_csi_method_but_plus_exclusion): see known findings', 'template hooks: dynamic check is containment-in-order only (quasis are not visible to a hook); the static mirror check is exact']
})
