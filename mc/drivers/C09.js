'use strict'
// C09 — the embedded source map resolves rewritten positions to the right original place.
const { mk } = require('../lib/static_driver')
const { enumerate, addStats } = require('../lib/explore')
const G = require('../grammar/space')
const F = require('../grammar/families')
const C = require('../grammar/configs')
const SM = require('../oracles/srcmap')
const { trailerInfo } = require('../oracles/v8parse')
const { isObj } = require('../oracles/erase')
const path = require('path')

// ---- layout dimension: the same token stream, different line/column geometry ---------------------------
function tokenize (src) {
  const re = /\s+|\/\/[^\n]*|\/\*[\s\S]*?\*\/|`(?:[^`\\$]|\\.|\$(?!\{))*`|"(?:[^"\\]|\\.)*"|'(?:[^'\\]|\\.)*'|[A-Za-z_$][\w$]*|\d+(?:\.\d+)?|\?\.|=>|\+=|-=|\.\.\.|===|!==|==|!=|<=|>=|&&|\|\||\?\?|\+\+|--|\*\*|[\s\S]/g
  const out = []
  let m
  while ((m = re.exec(src))) out.push(m[0])
  return out
}
const BREAK_AFTER = new Set(['(', ',', '+', '=', '+=', '?', ':', '{', '[', '&&', '||', '??'])
const LAYOUTS = {
  as_is: (s) => s,
  break_after_operators: (s) => s.includes('`') ? s : tokenize(s).map((t) => BREAK_AFTER.has(t) ? t + '\n      ' : t).join(''),
  break_before_dot: (s) => s.includes('`') ? s : tokenize(s).map((t, i, a) => (t === '.' || t === '?.') && /[\w)\]]$/.test(a[i - 1] || '') && !/^\d/.test(a[i - 1] || '') ? '\n        ' + t : t).join(''),
  // every statement starts at column 0 of a line of its own (the byte before it is the previous line's terminator)
  column0: (s) => s.includes('`') ? s : s.replace(/\n {2}/g, '\n').replace(/; /g, ';\n').replace(/\{ /g, '{\n'),
  crlf: (s) => s.replace(/\n/g, '\r\n'),
  tabs: (s) => s.replace(/\n {2}/g, '\n\t\t').replace(/; /g, ';\t'),
  leading_lines: (s) => '\n\n// leading comment\n/* block\n comment */\n\n' + s,
  bmp_comments: (s) => s.replace(/\n {2}/g, '\n  /* ñ€ñ */ '),
  bmp_string_same_line: (s) => s.replace(/x = /, "y = 'ñ€—ñ'; x = ").replace(/return /, "'€'; return ")
}
const FILES = ['/p/app.js', 'app.js', './d/app.js', 'C:\\p\\app.js', '/p/my file ñ.js', '/p/app.min.mjs',
  // names given to code that does not come from a file, and other legal oddities
  '<anonymous>', '<eval>/generated/util.js', '/p/<gen>.js', 'file:///p/app.js', '/p/dir.with.dots/app', '/p/.hidden.js', '/p/a"quote.js', "/p/a'b.js", '/p/a%20b.js', '/p/日本.js', '/p/a$&b.js', '/p/[id].js', '/p/a,b;c.js']

function posixBase (f) { return f.split('/').filter((x) => x.length).pop() }

// ---- oracle ----------------------------------------------------------------------------------------------
function checkMap ({ a, resp, code, file, v, res, identifiersOnly }) {
  const t = trailerInfo(resp.content)
  if (!t.map) { v('no-embedded-map', 'trailer', 'no decodable trailer'); return }
  const m = t.map
  if (m.version !== 3) v('map-version', String(m.version), 'version is not 3')
  const base = posixBase(file)
  if (!(Array.isArray(m.sources) && m.sources.length === 1 && m.sources[0] === base)) v('map-sources', 'sources', `sources is ${JSON.stringify(m.sources)}, expected [${JSON.stringify(base)}] for file ${JSON.stringify(file)}`)
  let d
  try { d = SM.decodeMap(m) } catch (e) { v('map-undecodable', 'mappings', String(e.message)); return }
  const tin = new SM.TextIndex(code)
  const tout = new SM.TextIndex(resp.content)
  res.notes = { segments: d.segments.length }
  // 1. every mapping points inside the input text
  for (const s of d.segments) {
    if (s.src === undefined) continue
    if (s.src !== 0 || !tin.inside(s.ol, s.oc)) { v('mapping-outside-input', s.src !== 0 ? 'source-index' : 'position', `segment ${s.gl}:${s.gc} -> source ${s.src} ${s.ol}:${s.oc} lies outside the input (${tin.lines.length} lines)`); break }
  }
  if (!a.erasure || (a.mismatches && a.mismatches.length)) return
  const inPos = (sp) => tin.fromByte(sp.start - 1)
  const outPos = (sp) => tout.fromByte(sp.start - 1)
  const outEnd = (sp) => tout.fromByte(sp.end - 1)
  // 2. every identifier copied from the input (paired by the lock-step walk) maps to its exact original position
  let idents = 0
  const stmts = []
  const blocks = []
  ;(function w (n) {
    if (Array.isArray(n)) { n.forEach(w); return }
    if (!isObj(n)) return
    const o = n.$out
    if (o && o.$span && o.$span.start > 0 && n.$span && n.$span.start > 0) {
      if (n.type === 'Identifier' && o.type === 'Identifier' && !o.$reread && n.$isRef) {
        idents++
        const gp = outPos(o.$span); const ip = inPos(n.$span)
        if (tout.at(gp.line, gp.col, n.value.length) === n.value) {
          const s = SM.lookup(d, gp.line, gp.col)
          if (!s || s.gl !== gp.line || s.gc !== gp.col) v('identifier-without-mapping', 'ident', `identifier ${n.value} at content ${gp.line}:${gp.col} has no mapping of its own`)
          else if (s.ol !== ip.line || s.oc !== ip.col) v('identifier-maps-elsewhere', s.ol !== ip.line ? 'line' : 'column', `identifier ${n.value} at content ${gp.line}:${gp.col} maps to ${s.ol}:${s.oc}, its original position is ${ip.line}:${ip.col}`)
        }
      }
      if (/Statement$|Declaration$/.test(n.type) && n.type !== 'BlockStatement') stmts.push({ in: n.$span, out: o.$span, type: n.type, node: n })
      if (n.type === 'BlockStatement') blocks.push({ in: n.$span, out: o.$span })
    }
    for (const k of Object.keys(n)) if (k[0] !== '$') w(n[k])
  })(a.inTree)
  res.notes.identifiers = idents
  // 2b. the second copy of a reference (the operand handed to the hook) maps to the same original position as
  // the copy left in the wrapped operation
  for (const h of a.erasure.hooks) for (const c of h.copies || []) {
    const gp = outPos(c.copy); const op = outPos(c.of)
    if (tout.at(gp.line, gp.col, c.name.length) !== c.name || tout.at(op.line, op.col, c.name.length) !== c.name) continue
    const s = SM.lookup(d, gp.line, gp.col); const so = SM.lookup(d, op.line, op.col)
    if (!so || so.gl !== op.line || so.gc !== op.col) continue
    idents++
    if (!s || s.gl !== gp.line || s.gc !== gp.col) v('identifier-without-mapping', 'hook-operand-copy', `the copy of ${c.name} handed to the hook at content ${gp.line}:${gp.col} has no mapping of its own (the position resolves to ${s ? s.ol + ':' + s.oc : 'nothing'}, the reference is at ${so.ol}:${so.oc})`)
    else if (s.ol !== so.ol || s.oc !== so.oc) v('identifier-maps-elsewhere', 'hook-operand-copy', `the copy of ${c.name} handed to the hook at content ${gp.line}:${gp.col} maps to ${s.ol}:${s.oc}, the reference is at ${so.ol}:${so.oc}`)
  }
  // (the size family is judged by rules 1-2b only: the statement rules below look every segment up in every
  // statement, which is quadratic in the number of statements)
  if (identifiersOnly) return
  // 3. every mapping generated inside a statement maps into the line span of that statement
  const hasHook = (n) => { let f = false; (function w (x) { if (f || x === null || typeof x !== 'object') return; if (Array.isArray(x)) { x.forEach(w); return } if (x.$hooked || x.$guarded) { f = true; return } for (const k of Object.keys(x)) if (k[0] !== '$') w(x[k]) })(n); return f }
  const S = stmts.map((s) => ({ instrumented: hasHook(s.node), gs: outPos(s.out), ge: outEnd(s.out), is: inPos(s.in).line, ie: tin.fromByte(s.in.end - 2 >= 0 ? s.in.end - 2 : 0).line, type: s.type, len: s.out.end - s.out.start })).sort((x, y) => x.len - y.len)
  const le = (p, q) => p.line < q.line || (p.line === q.line && p.col <= q.col)
  const lt = (p, q) => p.line < q.line || (p.line === q.line && p.col < q.col)
  // only segments that sit on a code token are judged: a segment on white space or on a (possibly emptied)
  // comment describes that comment, not code
  const onToken = (s) => { const t = tout.at(s.gl, s.gc, 2); return t.length > 0 && !/^\s/.test(t) && t !== '//' && t !== '/*' }
  for (const s of d.segments) {
    if (s.src === undefined || !onToken(s)) continue
    const p = { line: s.gl, col: s.gc }
    const st = S.find((q) => le(q.gs, p) && lt(p, q.ge))
    if (!st) continue
    if (s.ol < st.is || s.ol > st.ie) { v('statement-token-maps-outside-statement', st.type, `content ${s.gl}:${s.gc} (${JSON.stringify(tout.at(s.gl, s.gc, 16))}) lies in a ${st.type} that spans input lines ${st.is}-${st.ie} but maps to line ${s.ol}`); break }
  }
  // every statement starts with a mapping of its own (so no position inherits from the previous statement)
  for (const st of S) {
    // only statements that received injected code are judged here: an untouched statement (an empty `;`,
    // a declaration) has no injected token that could inherit a foreign position
    if (!st.instrumented) continue
    const s = SM.lookup(d, st.gs.line, st.gs.col)
    if (!s || s.gl !== st.gs.line || s.gc !== st.gs.col) { v('statement-start-unmapped', st.type, `the ${st.type} at content ${st.gs.line}:${st.gs.col} has no mapping at its first token`); break } else if (s.ol < st.is || s.ol > st.ie) { v('statement-start-maps-outside-statement', st.type, `the ${st.type} at content ${st.gs.line}:${st.gs.col} maps to line ${s.ol}, statement spans ${st.is}-${st.ie}`); break }
  }
  // 5. the prologue belongs to no statement of the input: a mapping on one of its tokens is a made-up position
  if (a.erasure.prologue && a.erasure.prologue.ifStmt && a.erasure.prologue.ifStmt.span) {
    const ps = outPos(a.erasure.prologue.ifStmt.span); const pe = outEnd(a.erasure.prologue.ifStmt.span)
    for (const s of d.segments) {
      if (s.src === undefined || !onToken(s)) continue
      const p = { line: s.gl, col: s.gc }
      if (le(ps, p) && lt(p, pe)) { v('prologue-token-mapped', 'prologue', `token of the injected prologue at content ${s.gl}:${s.gc} (${JSON.stringify(tout.at(s.gl, s.gc, 16))}) is mapped to input ${s.ol}:${s.oc}`); break }
    }
  }
  // 4. injected declarations map into the line span of their block
  for (const l of a.erasure.lets) {
    if (!l.span || !l.blockSpan || l.blockSpan.start === 0) continue
    const blk = blocks.find((b) => b.out.start === l.blockSpan.start && b.out.end === l.blockSpan.end)
    if (!blk) continue
    const bs = inPos(blk.in).line; const be = tin.fromByte(blk.in.end - 2).line
    const gs = outPos(l.span); const ge = outEnd(l.span)
    let n = 0
    for (const s of d.segments) {
      if (s.src === undefined || !onToken(s)) continue
      const p = { line: s.gl, col: s.gc }
      if (le(gs, p) && lt(p, ge)) { n++; if (s.ol < bs || s.ol > be) { v('injected-let-maps-outside-block', 'let', `token of the injected let at content ${s.gl}:${s.gc} maps to line ${s.ol}, its block spans input lines ${bs}-${be}`); break } }
    }
    if (!n) v('injected-let-unmapped', 'let', `the injected let at content ${gs.line}:${gs.col} has no mapping (positions there resolve to whatever precedes it)`)
  }
}

module.exports = mk({
  id: 'C09',
  families: ['A', 'B', 'C', 'M', 'S', 'T', 'Q', 'R', 'K'],
  // real library files: the same static oracle on syntax nobody wrote an expectation for
  corpus: { configs: ['FULL', 'RENAMED'], quickLimit: 60 },
  familyOpts: (tier) => ({ B: { k: 1 }, A: tier === 'thorough' ? {} : {} }),
  extra: async (tier) => {
    // layout x file-name x comments family over representative programs
    const progs = []
    for (const sc of G.SCHEMAS) progs.push(F.mkLeaf('L', { op: sc.tpl, X: 'f()', Y: 'b', Z: 'o.p', S: 'arr' }))
    for (const op of F.REP_OPS_Q) for (const st of Object.keys(G.STMTCTX)) if (!['with', 'async', 'async_fn', 'generator'].includes(st)) progs.push(F.mkLeaf('L', { op: op.tpl, stmtctx: st }))
    const r = enumerate([{ name: 'prog', symbols: progs, free: true }, { name: 'layout', symbols: Object.keys(LAYOUTS) }, { name: 'file', symbols: FILES }, { name: 'config', symbols: ['FULL', 'COMMENTS'] }], { k: tier === 'thorough' ? 3 : 1 })
    const leaves = r.leaves.map((l) => {
      const code = LAYOUTS[l.pick.layout](G.render(l.pick.prog))
      return { fam: 'layout', key: ['layout', l.pick.prog.key, l.pick.layout, l.pick.file, l.pick.config].join('¦'), code, file: l.pick.file, config: l.pick.config, desc: l.pick.layout + ' ' + l.pick.file }
    })
    // files that carry `//# sourceMappingURL=` comments (removed from the output when comments are printed):
    // whatever the printer does to them must not invalidate the positions of the map
    const b64 = (x) => Buffer.from(x, 'utf8').toString('base64')
    const ORIG = JSON.stringify({ version: 3, sources: ['o.ts'], names: [], mappings: 'AAAA;AACA;AACA;AACA;AACA;AACA' })
    // (references that resolve to something that cannot be chained: the plain map of THIS rewrite is due)
    const URLS = { missing_file: 'first.js.map', data_url: 'data:application/json;base64,' + b64(ORIG),
      empty_mappings: 'data:application/json;base64,' + b64(JSON.stringify({ version: 3, file: 'app.js', sources: ['o.ts'], names: [], mappings: '' })),
      empty_object: 'data:application/json;base64,' + b64('{}'), not_json: 'data:application/json;base64,' + b64('hello'), bad_base64: 'data:application/json;base64,@@@@',
      index_map: 'data:application/json;base64,' + b64(JSON.stringify({ version: 3, sections: [] })), only_semicolons: 'data:application/json;base64,' + b64(JSON.stringify({ version: 3, sources: ['o.ts'], names: [], mappings: ';;;' })) }
    const REFPOS = {
      end_own_line: (u) => `function first(a, b) { return a + b }\nfunction main(c, d) {\n  return c + d.trim()\n}\n//# sourceMappingURL=${u}\n`,
      end_same_line: (u) => `function first(a, b) { return a + b }\nfunction main(c, d) {\n  return c + d.trim()\n} //# sourceMappingURL=${u}`,
      mid_same_line: (u) => `function first(a, b) { return a + b } //# sourceMappingURL=${u}\nfunction main(c, d) {\n  return c + d.trim()\n}\n`,
      mid_own_line_after_code: (u) => `function first(a, b) { return a + b }\n//# sourceMappingURL=${u}\nfunction main(c, d) {\n  return c + d.trim()\n}\n`,
      inside_function: (u) => `function main(c, d) {\n  const e = c + d //# sourceMappingURL=${u}\n  return e.trim()\n}\n`,
      two_comments: (u) => `function first(a, b) { return a + b } //# sourceMappingURL=${u}\nfunction main(c, d) {\n  return c + d.trim()\n}\n//# sourceMappingURL=${u}\n`
    }
    const r2 = enumerate([{ name: 'pos', symbols: Object.keys(REFPOS), free: true }, { name: 'url', symbols: Object.keys(URLS), free: true }, { name: 'comments', symbols: [true, false], free: true }, { name: 'chain', symbols: [false, true], free: true }, { name: 'eol', symbols: ['lf', 'crlf'], free: true }], {})
    for (const l of r2.leaves) {
      let code = REFPOS[l.pick.pos](URLS[l.pick.url])
      if (l.pick.eol === 'crlf') code = code.replace(/\n/g, '\r\n')
      leaves.push({ fam: 'mapref', key: ['mapref', l.pick.pos, l.pick.url, l.pick.comments, l.pick.chain, l.pick.eol].join('¦'), code, file: '/p/app.js', config: Object.assign({}, C.FULL, { comments: l.pick.comments, chainSourceMap: l.pick.chain }), desc: 'mapref ' + l.pick.pos, chained: l.pick.chain && l.pick.url === 'data_url' })
    }
    // file sizes around every power of two from 64 KiB to 1 MiB (a size threshold, a 16-bit column or offset): the
    // same three-line function repeated, so every line of a big file is judged like the lines of a small one
    for (const kib of [63, 65, 127, 129, 255, 257, 511, 513, 1023, 1025]) {
      const unit = (k) => `function f${k}(a, b) {\n  return a + b.trim();\n}\n`
      let code = ''
      for (let k = 0; code.length < kib * 1024; k++) code += unit(k)
      r2.stats.states++; r2.stats.transitions++
      leaves.push({ fam: 'size', key: 'size¦' + kib, code, file: '/p/big.js', config: 'FULL', desc: 'size ' + kib + ' KiB' })
    }
    return { leaves, stats: addStats(r.stats, r2.stats) }
  },
  oracle ({ a, v, res, resp, code, leaf }) {
    if (!a.modified || a.contentUnparsable || a.inputUnparsable) return
    if (leaf.chained) return // composition is C10's business; here the map must describe THIS input
    res.nontrivial = true
    checkMap({ a, resp, code, file: require('../lib/static_driver').leafFile(leaf), v, res, identifiersOnly: leaf.fam === 'size' })
  },
  bound: (tier) => ({ layout_file_comments_deviations_k: tier === 'thorough' ? 3 : 1, layouts: Object.keys(LAYOUTS).length, files: FILES.length }),
  alphabets: () => ({ layouts: Object.keys(LAYOUTS), files: FILES }),
  rule: 'leaf = program of families A,B,C,M (as written) or representative program x layout transform (line breaks after operators / before dots, CRLF, tabs, leading lines, BMP comments and strings on the same line) x file name x comments setting (k deviations), references to 8 kinds of maps at 6 positions, file sizes 63..1025 KiB around every power of two (identifier rules only); non-trivial = file modified (a map exists); distinct by (text, config, file)',
  explanation: 'explicit enumeration; oracle = independent VLQ decoder + global greatest-lower-bound lookup over the decoded trailer: sources == [basename], every segment inside the input, every copied identifier (paired with its input node by the lock-step walk) maps to its exact original line/column, every segment inside a statement maps into the input line span of that statement, every statement and every injected let has a mapping of its own',
  assumptions: ['columns are UTF-16 code units (what swc emits and V8 reports); astral characters are not generated', 'base name is taken with POSIX semantics']
})
