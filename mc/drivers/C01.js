'use strict'
// C01 — pass-through equivalence: V8 running the *input* is the reference model; the rewritten
// content (identity hooks installed by its own prologue) must produce the same observation for
// every program of the bounded space and every run-time environment of G7.
const C = require('../grammar/configs')
const G = require('../grammar/space')
const F = require('../grammar/families')
const X = require('../oracles/exec')
const { norm } = require('../oracles/erase')

async function build (tier) {
  // quick tier: in family B a second deviation is only taken as (statement ctx x expression ctx) pair
  const r = F.all(tier, { families: ['A', 'B', 'C', 'G', 'M', 'S', 'P', 'T', 'H', 'Q', 'R', 'N', 'L', 'K'], B: tier === 'thorough' ? {} : { pairs: 'ctx-only', ops: F.REP_OPS.slice(0, 6) }, H: { L: 3 }, C: tier === 'thorough' ? {} : { noDepth3: true }, R: tier === 'thorough' ? {} : { rhs: ['b', 'f()', 'q => q'] }, S: tier === 'thorough' ? {} : { L: 2 } })
  return {
    leaves: r.leaves,
    stats: r.stats,
    bound: { deviations_k: tier === 'thorough' ? 3 : 2, nesting_depth: tier === 'thorough' ? 3 : 2, atoms: tier === 'thorough' ? G.ATOMS_T.length : G.ATOMS_Q.length, envs: 'baseline + one-at-a-time deviations of every variable the program mentions + 3 pairs' },
    alphabets: { schemas: G.SCHEMAS.length, atoms: tier === 'thorough' ? G.ATOMS_T : G.ATOMS_Q, exprctx: G.EXPRCTX.length, stmtctx: Object.keys(G.STMTCTX).length, scopes: Object.keys(G.SCOPES), configs: F.CONFIGS, rep_ops: (tier === 'thorough' ? F.REP_OPS : F.REP_OPS_Q).map((o) => o.tpl) }
  }
}

function requests (leaf) {
  const code = G.render(leaf)
  const want = code.includes('`') ? ['astIn'] : ['parseIn']
  return [{ config: C[leaf.config], file: '/p/app.js', code, want }]
}

function sigOf (leaf, why) {
  const parts = ['op=' + leaf.op]
  if (leaf.fam === 'C') parts.push('nest=' + leaf.opkind)
  if (leaf.exprctx !== '@@') parts.push('ectx=' + leaf.exprctx)
  if (leaf.stmtctx !== 'expr') parts.push('sctx=' + leaf.stmtctx)
  if (leaf.scope !== 'sloppy') parts.push('scope=' + leaf.scope)
  if (leaf.config !== 'FULL') parts.push('cfg=' + leaf.config)
  if (leaf.fam === 'P') parts.push('operands=' + [leaf.X, leaf.Y, leaf.Z].filter((x) => x !== undefined).join('|'))
  return parts.join(' ') + ' :: ' + why
}

async function check (leaf, resps, ctx) {
  const r = resps[0]
  const code = G.render(leaf)
  const res = { nontrivial: false, outcome: 'ok', violations: [], evaluations: 1, distinctKey: code + '|' + leaf.config }
  if (r.status !== 'ok') { res.outcome = 'rejected:' + r.status; return res }
  const kind = r.parseIn && r.parseIn.kind === 'module' ? 'module' : 'script'
  if (!r.content) { res.outcome = 'notmodified'; return res }
  let inCtx
  try { inCtx = await X.compile(code, kind, '/p/app.js') } catch (e) { res.outcome = 'input-invalid-for-v8'; return res }
  let outCtx
  try { outCtx = await X.compile(r.content, kind, '/p/app.js') } catch (e) {
    res.violations.push({ rule: 'content-does-not-compile', sig: sigOf(leaf, 'compile'), detail: String(e).slice(0, 200) + '\n' + code })
    res.outcome = 'violation'
    return res
  }
  const relax = r.parseIn.ast ? X.hasMultiSubstTemplate(norm(r.parseIn.ast)) : false
  let envs = X.envVariants(code, ctx.tier)
  // quick tier: the context families (B, G, M) take the 5 most discriminating environments (the generated families H, Q, R, N, L, T: 3), C: 7, A all of them
  if (ctx.tier !== 'thorough' && leaf.fam !== 'A') envs = envs.slice(0, leaf.fam === 'C' ? 7 : 'HQRNLTK'.includes(leaf.fam) ? 3 : 5)
  res.nontrivial = true
  let n = 0
  for (const spec of envs) {
    const a1 = await X.runOne(inCtx, spec)
    // determinism guard: the input is run twice (every environment in the thorough tier, the first two in quick)
    const a2 = (ctx.tier === 'thorough' || n < 2) ? await X.runOne(inCtx, spec) : a1
    n++
    if (a1.result.startsWith('machinery') || !X.sameObs(a1, a2, false).same) { res.notes = { harness_nondeterministic_or_timeout: 1 }; continue }
    let b = await X.runOne(outCtx, spec)
    // a time-out of the content alone may be a loaded machine: decided again with ten times the budget (a content
    // that really does not terminate where the input does is a difference)
    if (b.result.startsWith('machinery')) b = await X.runOne(outCtx, spec, null, 20000)
    const cmp = X.sameObs(a1, b, relax)
    if (!cmp.same) {
      res.violations.push({ rule: 'exec-diff', sig: sigOf(leaf, cmp.why.replace(/@\d+/, '')), detail: `env=${JSON.stringify(spec)} ${cmp.why}\n  input : ${cmp.a}\n  output: ${cmp.b}\n${code.split('\n').slice(-2).join('\n')}` })
      break
    }
  }
  // sloppy-mode leak: an assignment to an undeclared injected name creates a global the input never had
  try {
    const gi = new Set(Object.getOwnPropertyNames(inCtx)); const leaked = Object.getOwnPropertyNames(outCtx).filter((k) => !gi.has(k) && k !== '_ddiast')
    if (leaked.length) res.violations.push({ rule: 'global-leak', sig: sigOf(leaf, 'leak'), detail: `running the content created global(s) ${leaked.join(',')} that running the input does not create\n${code.split('\n').slice(-2).join('\n')}` })
  } catch (e) {}
  res.evaluations = n
  if (res.violations.length) res.outcome = 'violation'
  res.sample = { program: code.split('\n').slice(4).join('\n'), config: leaf.config, envs: envs.length }
  return res
}

module.exports = {
  id: 'C01',
  build,
  requests,
  check,
  inflight: 8,
  rule: 'leaf = (operation schema x operand atoms x expression ctx x statement ctx x scope kind x config) rendered to a program; executed = input and rewritten content in fresh V8 contexts for every environment; non-trivial = rewriter reported modified and both sides compile; distinct by (program text, config)',
  explanation: 'explicit-state exploration of the program space (families A,B,C,G), differential execution of every leaf against V8 running the input as reference model',
  assumptions: ['the source text of functions (Function.prototype.toString, visible when a function is coerced to a string) is compared modulo layout: every re-printing changes it', 'run-time values limited to G7 (strings, numbers, null/undefined, logging Proxy objects, mutating/throwing callee)', 're-reading a local identifier is unobservable (all free names are locals of main)', 'error messages/positions not compared; coerce events may move only when the input has a template with >= 2 substitutions', 'native build of the rewriter; V8 of Node 20']
}
