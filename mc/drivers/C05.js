'use strict'
// C05 — configuration is honoured exactly; only configured hooks are ever referenced; defaults;
// the prologue lets rewritten files run before and after the tracer installs real hooks.
const vm = require('vm')
const { enumerate, histories, addStats } = require('../lib/explore')
const { analyse, WANT } = require('../oracles/analyse')
const { summ } = require('../oracles/erase')

// ---- (i) configuration lattice -----------------------------------------------------------------------
const ENTRIES = [
  { src: 'plusOperator', operator: true },
  { src: 'tplOperator', operator: true },
  { src: 'trim' },
  { src: 'concat' },
  { src: 'substring', dst: 'stringSubstring' },
  { src: 'aloneMethod', allowedWithoutCallee: true },
  { src: 'cantAloneMethod' },
  { src: 'plusOperator', operator: false, dst: 'plusAsMethod' },
  { src: 'trim', operator: true, dst: 'trimAsOperator' },
  { src: 'tplOperator', dst: 'tplAsMethod' }
]
const STMTS = 'let x = a + b; x += a; let t = `${a}${b}`; let m1 = a.trim(); let m2 = a.concat(b); let m3 = a.substring(1); let m4 = aloneMethod(a); let m5 = cantAloneMethod(a); let m6 = a.plusOperator(b); let m7 = s?.trim(); let m8 = String.prototype.concat.call(a, b); let m9 = a.slice(1); let m10 = o.aloneMethod(a); let m11 = String.prototype.substring.apply(a, [1, 2]); let m12 = a.at(1); let m13 = a.con(b); let m14 = a.trimEnd(); let m15 = a.Trim(); let m16 = a.tplOperator(b); let m17 = o?.q.call(a, b); let m18 = g?.apply(a, [b]); let m19 = s?.at(1); let m20 = s?.trim.call(a); let m21 = o?.p.concat(b); let m22 = o?.q?.(a).slice(1); let m23 = o.q?.call(a, b);'
const SIDE_BY_SIDE = `function main(a, b, s, o) {\n  ${STMTS}\n  {\n    ${STMTS}\n  }\n  const k = () => { ${STMTS} };\n}\nvar top = g1 + g2 + \`\${g1}\` + g1.trim();\n`
const VARIANTS = [
  { name: 'dup-src', add: [{ src: 'trim', dst: 'trimSecond' }] },
  { name: 'dst-collision', add: [{ src: 'slice', dst: 'concat' }] },
  { name: 'dup-operator', add: [{ src: 'plusOperator', operator: true, dst: 'plusSecond' }] },
  { name: 'awc-renamed', add: [{ src: 'aloneMethod2', dst: 'aloneRenamed', allowedWithoutCallee: true }] },
  // replacement names that are textual suffixes / prefixes / case variants of other configured names
  { name: 'suffix-name', add: [{ src: 'at' }] },
  { name: 'prefix-name', add: [{ src: 'con' }] },
  { name: 'case-variant', add: [{ src: 'Trim' }] },
  { name: 'shared-dst', add: [{ src: 'trimEnd', dst: 'trim' }] },
  { name: 'suffix-first', add: [{ src: 'at' }], prepend: true }
]

const EXTRAS = { verbosity_off: { telemetryVerbosity: 'OFF' }, verbosity_debug: { telemetryVerbosity: 'DEBUG' }, verbosity_mandatory: { telemetryVerbosity: 'MANDATORY' }, comments: { comments: true }, chain: { chainSourceMap: true }, no_literals: { literals: false }, no_prefix: { localVarPrefix: undefined } }

// ---- (ii) options --------------------------------------------------------------------------------------
const OPT_VALUES = { chainSourceMap: true, comments: true, localVarPrefix: 'zz', csiMethods: [{ src: 'trim', dst: 'x' }], telemetryVerbosity: 'DEBUG', literals: false }
const VERB = [undefined, 'OFF', 'off', 'Debug', 'MANDATORY', 'INFORMATION', 'bogus']
const VERB_EXPECT = { DEBUG: 'Debug', OFF: 'Off', off: 'Off', Debug: 'Debug', MANDATORY: 'Mandatory', INFORMATION: 'Information', bogus: 'Information' }

// ---- (iii) event orders ----------------------------------------------------------------------------------
const EVENT_CFG = { localVarPrefix: 'p', csiMethods: [{ src: 'plusOperator', operator: true }, { src: 'tplOperator', operator: true, dst: 'tpl' }, { src: 'trim' }, { src: 'concat', dst: 'stringConcat' }] }
const FILE_A = 'function mainA(a, b) { return a + b.trim() }'
const FILE_B = 'function mainB(a, b) { return `${a}|${b.concat(a)}` }'
const EVENTS = ['loadA', 'loadB', 'install', 'callA', 'callB']

async function build (tier) {
  const leaves = []
  let stats = { states: 1, transitions: 0 }
  {
    // (the other replacement names are legal identifier names that are not plain ASCII words: `$r0_…`, `ñ1_…`, `Δ$3_…`)
    // every entry is absent or present (full product); independently, up to k entries (quick: 1, thorough: all)
    // get another replacement name, or one of the variants is added
    const dims = ENTRIES.map((e, i) => ({ name: 'e' + i, symbols: [false, true], free: true }))
    ENTRIES.forEach((e, i) => dims.push({ name: 'r' + i, symbols: [false, true], free: tier === 'thorough' }))
    dims.push({ name: 'variant', symbols: [null].concat(VARIANTS.map((v) => v.name)) })
    // one other option set next to the method list (the prologue and the closed world must not depend on it)
    dims.push({ name: 'extra', symbols: [null].concat(Object.keys(EXTRAS)) })
    const r = enumerate(dims, { k: 1, valid: (cur, i) => { if (i >= ENTRIES.length && i < 2 * ENTRIES.length && cur['r' + (i - ENTRIES.length)] && !cur['e' + (i - ENTRIES.length)]) return false; return true } })
    stats = addStats(stats, r.stats)
    for (const l of r.leaves) {
      let methods = ENTRIES.map((e, i) => l.pick['r' + i] ? Object.assign({}, e, { dst: ['$r', 'ñ', 'r', 'Δ$'][i % 4] + i + '_' + e.src }) : e).filter((e, i) => l.pick['e' + i])
      const variant = VARIANTS.find((v) => v.name === l.pick.variant)
      if (variant) methods = variant.prepend ? variant.add.concat(methods) : methods.concat(variant.add)
      const config = Object.assign({ localVarPrefix: 'p', csiMethods: methods }, l.pick.extra ? EXTRAS[l.pick.extra] : {})
      if (config.localVarPrefix === undefined) delete config.localVarPrefix
      leaves.push({ fam: 'lattice', key: 'lat¦' + ENTRIES.map((e, i) => l.pick['r' + i] ? 2 : l.pick['e' + i] ? 1 : 0).join('') + '¦' + l.pick.variant + (l.pick.extra ? '¦' + l.pick.extra : ''), config, variant: l.pick.variant })
    }
    // every configuration made of <= 2 entries out of the generated entry kinds: source name x operator flag
    // {true, false, omitted} x replacement name {omitted, own, shared} x allowedWithoutCallee {omitted, true, false}
    const KINDS = []
    for (const src of ['plusOperator', 'tplOperator', 'trim', 'concat', 'aloneMethod']) for (const op of [true, false, undefined]) for (const dst of [undefined, 'd$ñ_' + src, 'shared']) for (const awc of [undefined, true, false]) {
      const e = { src }
      if (op !== undefined) e.operator = op
      if (dst !== undefined) e.dst = dst
      if (awc !== undefined) e.allowedWithoutCallee = awc
      KINDS.push(e)
    }
    const two = tier === 'thorough' ? KINDS : KINDS.filter((e, i) => i % 3 === 0 || e.operator === undefined)
    for (let i = 0; i < KINDS.length; i++) {
      stats.states++; stats.transitions++
      leaves.push({ fam: 'lattice', key: 'kind¦' + JSON.stringify(KINDS[i]), config: { localVarPrefix: 'p', csiMethods: [KINDS[i]] }, variant: null })
      for (const e2 of two) { stats.states++; stats.transitions++; leaves.push({ fam: 'lattice', key: 'kind2¦' + JSON.stringify(KINDS[i]) + JSON.stringify(e2), config: { localVarPrefix: 'p', csiMethods: [KINDS[i], e2] }, variant: null }) }
    }
    for (const c of [{ localVarPrefix: 'p' }, { localVarPrefix: 'p', csiMethods: [] }, {}]) { stats.states++; stats.transitions++; leaves.push({ fam: 'lattice', key: 'lat¦empty¦' + JSON.stringify(c), config: c, variant: null }) }
  }
  {
    const keys = Object.keys(OPT_VALUES)
    const dims = keys.map((k) => ({ name: k, symbols: [false, true], free: true }))
    dims.push({ name: 'verb', symbols: VERB, free: true })
    const r = enumerate(dims, { valid: (cur, i) => !(i >= dims.length - 1 && cur.verb !== undefined && !cur.telemetryVerbosity) })
    stats = addStats(stats, r.stats)
    for (const l of r.leaves) {
      const c = {}
      for (const k of keys) if (l.pick[k]) c[k] = OPT_VALUES[k]
      if (l.pick.verb !== undefined) c.telemetryVerbosity = l.pick.verb
      leaves.push({ fam: 'options', key: 'opt¦' + JSON.stringify(c), config: c })
    }
    for (const c of [null, 7, 'str', [], true]) { stats.states++; stats.transitions++; leaves.push({ fam: 'options', key: 'opt¦nonobject¦' + JSON.stringify(c), config: c, nonObject: true }) }
  }
  {
    const h = tier === 'thorough' ? 6 : 5
    const r = histories(EVENTS, h, (p) => {
      const last = p[p.length - 1]
      const before = p.slice(0, -1)
      if (last === 'callA') return before.includes('loadA')
      if (last === 'callB') return before.includes('loadB')
      if (last === 'loadA' || last === 'loadB' || last === 'install') return !before.includes(last)
      return true
    })
    stats = addStats(stats, r.stats)
    for (const hist of r.histories) leaves.push({ fam: 'events', key: 'ev¦' + hist.join(','), hist })
  }
  return { leaves, stats, bound: { lattice: tier === 'thorough' ? '3^10 assignments {absent, present, renamed} of 10 entries x up to 1 variant' : '2^10 present/absent subsets of 10 entries x (nothing | one entry renamed | one of 4 variants)', options: '2^6 presence patterns x 7 verbosity spellings + non-object configs', event_history_length: tier === 'thorough' ? 6 : 5 }, alphabets: { entries: ENTRIES, variants: VARIANTS.map((v) => v.name), events: EVENTS } }
}

function requests (leaf) {
  if (leaf.fam === 'lattice') return [{ config: leaf.config, file: '/p/app.js', code: SIDE_BY_SIDE, want: WANT.concat(['config']) }]
  if (leaf.fam === 'options') return [{ op: 'config', config: leaf.config }, { config: leaf.config, file: '/p/app.js', code: 'function f(a){ const s = "a literal long enough"; return a.trim() }' }]
  return [{ config: EVENT_CFG, file: '/p/a.js', code: FILE_A }, { config: EVENT_CFG, file: '/p/b.js', code: FILE_B }]
}

function hookNames (ast) {
  const names = new Set()
  ;(function w (n) {
    if (Array.isArray(n)) { n.forEach(w); return }
    if (n === null || typeof n !== 'object') return
    if (n.type === 'MemberExpression' && n.object && n.object.type === 'Identifier' && n.object.value === '_ddiast') names.add(n.property.type === 'Identifier' ? n.property.value : '<computed>')
    for (const k of Object.keys(n)) if (k !== 'span') w(n[k])
  })(ast)
  return names
}

function checkLattice (leaf, r, res, v) {
  if (r.status !== 'ok') { v('config-rejected', 'lattice', 'rewrite failed under a well-formed configuration: ' + String(r.error).slice(0, 120)); return }
  const a = analyse(r, leaf.config)
  res.nontrivial = true
  const ms = Array.isArray(leaf.config.csiMethods) ? leaf.config.csiMethods : []
  const configured = new Set(ms.map((m) => m.dst == null ? m.src : m.dst))
  if (ms.length === 0) {
    if (a.modified) v('modified-with-empty-method-list', 'empty', 'no csi method configured but the file is reported modified')
    return
  }
  if (a.modified) {
    if (a.contentUnparsable) { v('content-unparsable', 'lattice', String(a.contentUnparsable).slice(0, 100)); return }
    // closed world: every _ddiast.<name> outside the prologue is a configured replacement name
    const used = new Set(a.erasure.hooks.map((h) => h.name))
    for (const n of used) if (!configured.has(n)) v('unconfigured-hook-name', n === '<computed>' ? 'computed' : 'name', `content dereferences _ddiast.${n}, which is not a configured replacement name (${Array.from(configured).join(',')})`)
    // the prologue defines a pass-through for every configured name
    if (a.erasure.prologue) {
      const defined = new Set()
      ;(function w (n) { if (Array.isArray(n)) { n.forEach(w); return } if (n === null || typeof n !== 'object') return; if (n.type === 'KeyValueProperty' && n.key && n.key.type === 'Identifier') defined.add(n.key.value); for (const k of Object.keys(n)) if (k !== 'span') w(n[k]) })(a.erasure.prologue.ifStmt)
      for (const n of used) if (!defined.has(n)) v('prologue-misses-name', 'prologue', `hook ${n} is used but the prologue does not define a pass-through for it`)
      for (const n of configured) if (/^[A-Za-z_$][\w$]*$/.test(n) && !defined.has(n)) v('prologue-misses-configured-name', 'prologue', `configured name ${n} has no pass-through in the prologue`)
    } else v('modified-without-prologue', 'prologue', 'modified file without prologue')
    // an optional chain is only lowered to its guard form in order to instrument something inside it
    for (const g of a.erasure.guardRecs || []) if (!g.hooked) v('unlisted-operation-altered', 'guard-without-hook', `the optional chain ${g.text.slice(0, 80)} was lowered to a null-guard on ${g.temp} although nothing inside it is instrumented`)
    if (a.mismatches.length) { res.notes = { erasure_mismatch: 1 }; return }
  }
  const dupSrc = new Set()
  const seen = new Set()
  for (const m of ms) { const k = (m.operator ? 'op:' : 'm:') + m.src; if (seen.has(k)) dupSrc.add(m.src); seen.add(k) }
  for (const q of a.reqs || []) {
    const name = q.kind === 'method' ? q.node.callee.property.value : q.kind === 'proto' ? q.node.callee.object.property.value : q.kind === 'bare' ? q.node.callee.value : q.kind
    if (q.must === 'FORBIDDEN' && q.hooked) v('hook-on-disabled-operation', q.kind, `${q.kind} operation ${summ(q.node).slice(0, 60)} is not enabled by the configuration (${q.why}) but is wrapped by _ddiast.${q.hooked.name}`)
    if (q.must === 'REQUIRED' && !q.hooked) v('enabled-operation-not-instrumented', q.kind, `${q.kind} operation ${summ(q.node).slice(0, 60)} is enabled but not instrumented (${q.anc})`)
    if (q.hooked && q.expected && q.hooked.name !== q.expected && !dupSrc.has(name) && !(q.kind.startsWith('plus') && dupSrc.has('plusOperator'))) v('wrong-replacement-name', q.kind, `${q.kind} operation ${summ(q.node).slice(0, 60)} wrapped by _ddiast.${q.hooked.name}, configured replacement is ${q.expected}`)
  }
}

function checkOptions (leaf, resps, res, v) {
  const d = resps[0].configDump
  res.nontrivial = true
  if (!d) { v('no-config', 'options', 'config op returned nothing'); return }
  const c = (leaf.config && typeof leaf.config === 'object' && !Array.isArray(leaf.config)) ? leaf.config : {}
  const exp = {
    chainSourceMap: c.chainSourceMap === undefined ? false : c.chainSourceMap,
    comments: c.comments === undefined ? false : c.comments,
    literals: c.literals === undefined ? true : c.literals,
    verbosity: c.telemetryVerbosity === undefined ? 'Information' : VERB_EXPECT[c.telemetryVerbosity]
  }
  for (const k of Object.keys(exp)) if (d[k] !== exp[k]) v('option-default', k, `option ${k}: effective value ${JSON.stringify(d[k])}, documented/expected ${JSON.stringify(exp[k])} for config ${JSON.stringify(leaf.config)}`)
  if (c.localVarPrefix === undefined) { if (!/^[a-z]{6}$/.test(d.localVarPrefix)) v('option-default', 'prefix', `default prefix ${JSON.stringify(d.localVarPrefix)} is not six lowercase letters`) } else if (d.localVarPrefix !== c.localVarPrefix) v('option-default', 'prefix', 'explicit prefix not honoured')
  const ms = c.csiMethods || []
  if (d.methods.length !== ms.length) v('option-default', 'methods', 'method list length differs')
  else ms.forEach((m, i) => { if (d.methods[i].dst !== (m.dst == null ? m.src : m.dst)) v('option-default', 'dst', `replacement name of ${m.src} is ${d.methods[i].dst}`) })
  // behaviour agrees with the effective options
  const r = resps[1]
  if (r.status === 'ok') {
    if ((r.literalsResult != null) !== exp.literals) v('option-behaviour', 'literals', `literals=${exp.literals} but literalsResult is ${r.literalsResult == null ? 'absent' : 'present'}`)
    if (r.metrics && exp.verbosity === 'Off' && r.metrics.instrumentedPropagation !== 0) v('option-behaviour', 'verbosity', 'verbosity OFF but propagation counted')
    if (r.metrics && (exp.verbosity === 'Debug') !== (r.metrics.propagationDebug != null)) v('option-behaviour', 'verbosity', `verbosity ${exp.verbosity} but propagationDebug ${r.metrics.propagationDebug == null ? 'absent' : 'present'}`)
  }
}

function checkEvents (leaf, resps, res, v) {
  res.nontrivial = true
  const [ra, rb] = resps
  if (ra.status !== 'ok' || rb.status !== 'ok' || !ra.content || !rb.content) { v('event-setup', 'rewrite', 'files of the event search were not rewritten'); return }
  const ctx = vm.createContext({})
  const calls = []
  const real = {}
  for (const n of ['plusOperator', 'tpl', 'trim', 'stringConcat']) real[n] = (res0, ...ops) => { calls.push(n); return res0 }
  let installed = false
  let preexisting = null
  const expectA = ' s t'; const expectB = ' s | t  s '
  leaf.hist.forEach((ev, i) => {
    const where = `event ${i} (${ev}) of [${leaf.hist.join(',')}]`
    try {
      if (ev === 'install') { ctx._ddiast = real; installed = true; preexisting = real } else if (ev === 'loadA' || ev === 'loadB') {
        const before = ctx._ddiast
        new vm.Script(ev === 'loadA' ? ra.content : rb.content, { filename: ev + '.js' }).runInContext(ctx)
        if (before !== undefined && ctx._ddiast !== before) v('hook-object-replaced', 'load', `${where}: loading a rewritten file replaced the existing _ddiast object`)
        if (typeof ctx._ddiast !== 'object' || ctx._ddiast === null) v('no-hook-object', 'load', `${where}: no _ddiast object after loading`)
        else if (!installed) for (const n of Object.keys(real)) if (typeof ctx._ddiast[n] !== 'function') v('prologue-misses-configured-name', 'runtime', `${where}: _ddiast.${n} is not defined by the prologue`)
      } else {
        calls.length = 0
        const out = vm.runInContext(ev === 'callA' ? "mainA(' s ', ' t ')" : "mainB(' s ', ' t ')", ctx)
        const exp = ev === 'callA' ? expectA : expectB
        if (out !== exp) v('event-result', ev, `${where}: returned ${JSON.stringify(out)}, input program returns ${JSON.stringify(exp)}`)
        const expCalls = ev === 'callA' ? ['trim', 'plusOperator'] : ['stringConcat', 'tpl']
        if (installed && JSON.stringify(calls) !== JSON.stringify(expCalls)) v('real-hooks-not-reached', ev, `${where}: installed hooks saw ${JSON.stringify(calls)}, expected ${JSON.stringify(expCalls)}`)
        if (!installed && calls.length) v('phantom-hook-calls', ev, `${where}: hooks called before installation`)
      }
    } catch (e) {
      v('event-threw', ev + ':' + (e && e.name), `${where}: ${e && e.name}: ${String(e && e.message).slice(0, 100)}`)
    }
  })
}

async function check (leaf, resps) {
  const res = { nontrivial: false, outcome: leaf.fam, violations: [], distinctKey: leaf.key }
  const v = (rule, sig, detail) => res.violations.push({ rule, sig, detail: detail + '\n  leaf: ' + leaf.key.slice(0, 300) })
  if (leaf.fam === 'lattice') checkLattice(leaf, resps[0], res, v)
  else if (leaf.fam === 'options') checkOptions(leaf, resps, res, v)
  else checkEvents(leaf, resps, res, v)
  if (res.violations.length) res.outcome = 'violation'
  else if (leaf.fam === 'lattice') res.outcome = 'lattice:' + (resps[0].metrics ? resps[0].metrics.status : resps[0].status)
  res.sample = { family: leaf.fam, leaf: leaf.key.slice(0, 200) }
  return res
}

module.exports = {
  id: 'C05',
  thoroughWorkers: 8,
  thoroughHeapMB: 7000,
  build,
  requests,
  check,
  rule: 'leaf = (i) subset of 9 configuration entries (+ one of 4 variants) against a side-by-side program holding every operation kind in function body / nested block / closure / top level, (ii) presence pattern of the 6 options x verbosity spelling, or non-object config, (iii) order of events {load A, load B, tracer installs hooks, call A, call B}; non-trivial = all (each leaf decides at least one configured/unconfigured name or default); distinct by leaf descriptor',
  explanation: 'explicit enumeration of the configuration lattice, option patterns and event orders; oracles: closed world of _ddiast.<name>, must()-based iff between configuration and instrumentation, documented defaults read back through the cfg hook, and execution of every event order in a V8 context',
  assumptions: ['JSON -> RewriterConfig uses the repo\'s own serde derive through serde_json (serde-wasm-bindgen in the shipped build)', 'with duplicate src entries only the closed-world rule is checked (which duplicate wins is not documented)']
}
