'use strict'
// C13 — totality: every (text, file name, configuration, reader answer) returns Ok or Err(msg);
// a panic, abort or timeout is a violation. Bounded-exhaustive enumeration of five families.
const { enumerate, addStats } = require('../lib/explore')
const C = require('../grammar/configs')
const SEEDS = require('../grammar/seeds')

const TOKENS = ['a', "'s'", '+', '+=', '`', '${', '}', '.trim', '?.', '(', ')', '{', '=>', ',']

function tokenize (src) {
  // coarse JS tokenizer: good enough to produce token-level mutants (any text is a legal input)
  const re = /\s+|\/\/[^\n]*|\/\*[\s\S]*?\*\/|`|\$\{|"(?:[^"\\]|\\.)*"|'(?:[^'\\]|\\.)*'|[A-Za-z_$][\w$]*|\d+(?:\.\d+)?|\?\.|=>|\+=|\.\.\.|===|!==|==|!=|<=|>=|&&|\|\||\?\?|\+\+|--|[\s\S]/g
  const out = []
  let m
  while ((m = re.exec(src))) if (!/^\s+$/.test(m[0])) out.push(m[0])
  return out
}

function b64 (s) { return Buffer.from(s, 'utf8').toString('base64') }
const VALID_MAP = JSON.stringify({ version: 3, sources: ['o.ts'], names: ['n'], mappings: 'AAAAA,CAAC;AACA', file: 'a.js' })

const READER_ANSWERS = {
  valid: { kind: 'text', text: VALID_MAP },
  notfound: { kind: 'notfound' },
  denied: { kind: 'denied' },
  isdir: { kind: 'isdir' },
  empty: { kind: 'text', text: '' },
  malformed: { kind: 'text', text: '{"version":3,"sources":[' },
  notamap: { kind: 'text', text: '{}' },
  array: { kind: 'text', text: '[1,2]' },
  number: { kind: 'text', text: '7' },
  index: { kind: 'text', text: JSON.stringify({ version: 3, sections: [{ offset: { line: 0, column: 0 }, map: JSON.parse(VALID_MAP) }] }) },
  indexBad: { kind: 'text', text: JSON.stringify({ version: 3, sections: [{ offset: { line: 0, column: 0 }, url: 'x' }] }) },
  outOfRange: { kind: 'text', text: JSON.stringify({ version: 3, sources: ['o.ts'], names: [], mappings: 'AAAAA,CEAC;AgBACg' }) },
  srcIdxHigh: { kind: 'text', text: JSON.stringify({ version: 3, sources: [], names: [], mappings: 'AAAA,CAAC' }) },
  truncVlq: { kind: 'text', text: JSON.stringify({ version: 3, sources: ['o.ts'], names: [], mappings: 'AAAA,C' }) },
  badVlq: { kind: 'text', text: JSON.stringify({ version: 3, sources: ['o.ts'], names: [], mappings: '!!!!' }) },
  negative: { kind: 'text', text: JSON.stringify({ version: 3, sources: ['o.ts'], names: [], mappings: 'AAAA,DADD;DDDD' }) },
  hugeVlq: { kind: 'text', text: JSON.stringify({ version: 3, sources: ['o.ts'], names: [], mappings: 'ggggggggggggggggggggggggggggggE' }) },
  nullSources: { kind: 'text', text: JSON.stringify({ version: 3, sources: [null], names: [], mappings: 'AAAA' }) },
  version2: { kind: 'text', text: JSON.stringify({ version: 2, sources: ['o.ts'], names: [], mappings: 'AAAA' }) },
  xssiPrefix: { kind: 'text', text: ")]}'\n" + VALID_MAP },
  invalidUtf8: { kind: 'b64', b64: Buffer.from([0x7b, 0xff, 0xfe, 0x22, 0x80]).toString('base64') },
  bom: { kind: 'text', text: '\ufeff' + VALID_MAP },
  big: { kind: 'repeat', prefix: '{"version":3,"sources":["o.ts"],"names":[],"mappings":"', unit: ';', times: 0, suffix: 'AAAA"}' },
  ioerror: { kind: 'other' },
  sourceless: { kind: 'text', text: JSON.stringify({ version: 3, sources: ['o.ts'], names: [], mappings: 'A,SAAA;A;AACA,C' }) },
  onlySourceless: { kind: 'text', text: JSON.stringify({ version: 3, sources: [], names: [], mappings: 'A,C,E;A' }) },
  nameIdxHigh: { kind: 'text', text: JSON.stringify({ version: 3, sources: ['o.ts'], names: [], mappings: 'AAAAE,CAACA' }) },
  fiveFieldsNoNames: { kind: 'text', text: JSON.stringify({ version: 3, sources: ['o.ts'], mappings: 'AAAAA' }) },
  hugeColumn: { kind: 'text', text: JSON.stringify({ version: 3, sources: ['o.ts'], names: [], mappings: 'AAAA,+////HAAA' }) },
  i32Overflow: { kind: 'text', text: JSON.stringify({ version: 3, sources: ['o.ts'], names: [], mappings: 'AAAA,ggggggEAAggggggE' }) },
  manyLines: { kind: 'repeat', prefix: '{"version":3,"sources":["o.ts"],"names":[],"mappings":"', unit: 'AACA;', times: 200000, suffix: 'AACA"}' },
  sourcesContentNull: { kind: 'text', text: JSON.stringify({ version: 3, sources: ['o.ts'], sourcesContent: [null], names: ['n'], mappings: 'AAAAA' }) },
  sourceRootWeird: { kind: 'text', text: JSON.stringify({ version: 3, sourceRoot: '\u0000/../..//', sources: ['../../../o.ts', ''], names: [], mappings: 'AAAA,CCAA' }) },
  sectionsNested: { kind: 'text', text: JSON.stringify({ version: 3, sections: [{ offset: { line: 0, column: 0 }, map: { version: 3, sections: [{ offset: { line: 0, column: 0 }, map: JSON.parse(VALID_MAP) }] } }] }) },
  sectionsOverlap: { kind: 'text', text: JSON.stringify({ version: 3, sections: [{ offset: { line: 5, column: 0 }, map: JSON.parse(VALID_MAP) }, { offset: { line: 0, column: 0 }, map: JSON.parse(VALID_MAP) }] }) },
  mappingsNotString: { kind: 'text', text: JSON.stringify({ version: 3, sources: ['o.ts'], names: [], mappings: 7 }) },
  sourcesNotArray: { kind: 'text', text: JSON.stringify({ version: 3, sources: 'o.ts', names: [], mappings: 'AAAA' }) },
  deepJson: { kind: 'repeat', prefix: '', unit: '[', times: 100000, suffix: '' }
}

const FILE_NAMES = ['/p/app.js', '', '/', 'a.js', 'd/a.js', '/abs/d/a.js', '..', 'd/', '.', '//', 'x'.repeat(4096) + '.js', 'a\u0000b.js', 'ñ/á €.js', 'C:\\p\\a.js', ' ', 'a.js/',
  // last components that start with, end with or consist of multi-byte characters (slicing by characters vs bytes)
  'ñ.js', '/app/ñ.js', '日本.js', '/p/añ.js', '/p/a.ñ', '/p/😀.js', 'C:\\app\\ñ.js', '/ñ/ü', 'ü']
const REFS = {
  none: '',
  inlineValid: '\n//# sourceMappingURL=data:application/json;base64,' + b64(VALID_MAP),
  inlineBadB64: '\n//# sourceMappingURL=data:application/json;base64,@@@=',
  inlineNotJson: '\n//# sourceMappingURL=data:application/json;base64,' + b64('hello'),
  inlineOtherMime: '\n//# sourceMappingURL=data:text/plain;base64,' + b64(VALID_MAP),
  inlineIndex: '\n//# sourceMappingURL=data:application/json;base64,' + b64(READER_ANSWERS.index.text),
  inlineCharset: '\n//# sourceMappingURL=data:application/json;charset=utf-8;base64,' + b64(VALID_MAP),
  dataOnly: '\n//# sourceMappingURL=data:',
  relative: '\n//# sourceMappingURL=x.map',
  dotRelative: '\n//# sourceMappingURL=./maps/x.map',
  upRelative: '\n//# sourceMappingURL=../x.map',
  absolute: '\n//# sourceMappingURL=/m/x.map',
  emptyUrl: '\n//# sourceMappingURL=',
  spaces: '\n//# sourceMappingURL=  x y.map  ',
  nul: '\n//# sourceMappingURL=a\u0000b.map',
  longUrl: '\n//# sourceMappingURL=' + 'y'.repeat(5000) + '.map',
  nonAscii: '\n//# sourceMappingURL=ñ€.map',
  block: '\n/*# sourceMappingURL=x.map */',
  two: '\n//# sourceMappingURL=x.map\nfunction g(){}\n//# sourceMappingURL=y.map',
  midFile: '\n//# sourceMappingURL=x.map\nfunction g(c){ return c + 1 }',
  http: '\n//# sourceMappingURL=http://example.com/x.map',
  // several references trailing the same token
  twoSameToken: '\n//# sourceMappingURL=x.map\n//# sourceMappingURL=y.map',
  blockThenLine: ' /*# sourceMappingURL=x.map */ //# sourceMappingURL=y.map',
  threeSameToken: '\n//# sourceMappingURL=x.map\n//# sourceMappingURL=data:application/json;base64,' + b64(VALID_MAP) + '\n/*# sourceMappingURL=y.map */'
}
const NEEDS_READER = new Set(['relative', 'dotRelative', 'upRelative', 'absolute', 'spaces', 'nul', 'longUrl', 'nonAscii', 'block', 'two', 'midFile', 'http', 'emptyUrl', 'dataOnly', 'inlineBadB64', 'inlineOtherMime', 'inlineNotJson', 'twoSameToken', 'blockThenLine', 'threeSameToken'])

function weirdConfigs () {
  const out = []
  const optVals = { chainSourceMap: true, comments: true, localVarPrefix: 'zz', csiMethods: C.FULL.csiMethods, telemetryVerbosity: 'DEBUG', literals: false }
  const keys = Object.keys(optVals)
  const verb = ['OFF', 'off', 'Debug', 'MANDATORY', 'INFORMATION', 'bogus', undefined]
  for (let mask = 0; mask < (1 << keys.length); mask++) {
    for (const v of verb) {
      const c = {}
      keys.forEach((k, i) => { if (mask & (1 << i)) c[k] = optVals[k] })
      if (v !== undefined) { if (!(mask & 16)) continue; c.telemetryVerbosity = v }
      out.push({ desc: 'opts:' + mask + ':' + v, config: c })
    }
  }
  const weird = [null, 7, 'x', [], true, { csiMethods: 7 }, { csiMethods: [7] }, { csiMethods: [{}] }, { csiMethods: [{ src: '' }] },
    { csiMethods: [{ src: 'plusOperator', operator: true, dst: '' }] }, { csiMethods: [{ src: 'plusOperator', operator: true, dst: 'a-b' }] },
    { csiMethods: [{ src: 'plusOperator', operator: true, dst: 'x: noop}; evil(); ({y' }] }, { csiMethods: [{ src: 'trim', dst: 'class' }] },
    { csiMethods: [{ src: 'plusOperator', operator: true }, { src: 'plusOperator', operator: true, dst: 'other' }] },
    { csiMethods: [{ src: 'plusOperator', operator: 'yes' }] }, { csiMethods: [{ src: 'trim', allowedWithoutCallee: 1 }] },
    { localVarPrefix: '' }, { localVarPrefix: '$' }, { localVarPrefix: 'a b' }, { localVarPrefix: '0' }, { localVarPrefix: 'ñ' }, { localVarPrefix: 'x'.repeat(5000) },
    { localVarPrefix: 7 }, { chainSourceMap: 'yes' }, { literals: null }, { telemetryVerbosity: 7 }, { telemetryVerbosity: '' }, { unknownOption: 1 },
    { csiMethods: [{ src: 'ñ' }, { src: 'a.b' }, { src: '__proto__' }, { src: 'constructor' }] }]
  weird.forEach((w, i) => {
    let c = w
    if (w && typeof w === 'object' && !Array.isArray(w) && !w.csiMethods) c = Object.assign({ csiMethods: C.FULL.csiMethods }, w)
    out.push({ desc: 'weird:' + i, config: c })
  })
  return out
}

async function build (tier) {
  const leaves = []
  let stats = { states: 0, transitions: 0 }
  const thorough = tier === 'thorough'

  // (i) token strings of length <= L, raw and inside a function body
  const L = thorough ? 5 : 4
  {
    const dims = []
    for (let i = 0; i < L; i++) dims.push({ name: 't' + i, symbols: [''].concat(TOKENS), free: true })
    dims.push({ name: 'wrap', symbols: ['fn', 'raw'], free: true })
    // canonical form: empty tokens only as a suffix (so each string is enumerated once)
    const r = enumerate(dims, { valid: (cur, i) => i === 0 || i >= L || !(cur['t' + (i - 1)] === '' && cur['t' + i] !== '') })
    stats = addStats(stats, r.stats)
    for (const l of r.leaves) {
      const toks = []
      for (let i = 0; i < L; i++) if (l.pick['t' + i]) toks.push(l.pick['t' + i])
      if (!toks.length) continue
      const body = toks.join(' ')
      leaves.push({ fam: 'tokens', key: 'tok:' + l.pick.wrap + ':' + body, code: l.pick.wrap === 'fn' ? `function f(a){ ${body} }` : body, file: '/p/app.js', config: 'FULL' })
    }
  }
  // (i-b) every STRING of <= Lc characters over the characters that steer the lexer (quotes, escapes, comment and
  // template openers, line terminators incl. U+2028, BOM, NUL, hashbang / private-name / html-comment openers)
  {
    const CH = ['a', '1', ' ', '\n', '\r', '\u2028', '\u2029', '\u00a0', '\ufeff', '\u0000', "'", '"', '`', '\\', '/', '*', '$', '{', '}', '(', ')', '[', ']', '#', '!', '<', '-', '>', '?', '.', ':', ';', '=', '+', ',', '@', '\u00f1', '😀', '&', '|', '~', '%']
    const Lc = thorough ? 4 : 3
    const rec = (t, n) => {
      stats.states++
      if (n > 0) { leaves.push({ fam: 'chars', key: 'chr:' + JSON.stringify(t), code: t, file: '/p/app.js', config: 'FULL' }); if (thorough ? n <= 3 : n <= 2) leaves.push({ fam: 'chars', key: 'chrfn:' + JSON.stringify(t), code: 'function f(a, b) { return a + b ' + t + ' }', file: '/p/app.js', config: 'FULL' }) }
      if (n === Lc) return
      for (const c of CH) { stats.transitions++; rec(t + c, n + 1) }
    }
    rec('', 0)
  }
  // (ii) single-token mutants of the seed programs + every prefix
  {
    const seeds = thorough ? SEEDS : SEEDS
    let n = 0
    seeds.forEach((seed, si) => {
      const toks = tokenize(seed)
      stats.states++
      for (let p = 0; p < toks.length; p++) {
        const variants = [['del', toks.slice(0, p).concat(toks.slice(p + 1))], ['dup', toks.slice(0, p + 1).concat(toks.slice(p))], ['prefix', toks.slice(0, p)]]
        const subs = thorough ? TOKENS : TOKENS.filter((_, i) => i % 2 === (p % 2)) // quick: half the substitutions per position, alternating
        for (const t of subs) variants.push(['sub:' + t, toks.slice(0, p).concat([t], toks.slice(p + 1))])
        for (const [kind, ts] of variants) {
          stats.states++; stats.transitions++; n++
          leaves.push({ fam: 'mutants', key: `mut:${si}:${p}:${kind}`, code: ts.join(' '), file: '/p/app.js', config: 'FULL' })
        }
      }
    })
  }
  // (ii-c) every operation schema of the grammar, plain and with d extra pairs of parentheses around its
  // operands / its assignment target / the whole operation (parentheses are where tree rewriting loops hide)
  {
    const G = require('../grammar/space')
    const depths = thorough ? [0, 1, 2, 3, 6] : [0, 1, 2, 3]
    const wrap = (t, d) => '('.repeat(d) + t + ')'.repeat(d)
    G.SCHEMAS.forEach((sc, si) => {
      stats.states++
      for (const d of depths) {
        for (const where of d === 0 ? ['plain'] : ['operands', 'target', 'whole']) {
          let op
          if (where === 'plain' || where === 'operands') op = G.fill(sc.tpl, { X: wrap('a', d), Y: wrap('b', d), Z: wrap('o.p', d), S: wrap('arr', d) })
          else if (where === 'target') { const m = /^([^=]+?) (\+=|\|\|=|\?\?=) /.exec(sc.tpl); if (!m) continue; op = G.fill(wrap(m[1], d) + sc.tpl.slice(m[1].length), {}) } else op = wrap(G.fill(sc.tpl, {}), d)
          stats.states++; stats.transitions++
          leaves.push({ fam: 'schema', key: `schema:${si}:${where}:${d}`, code: `function main(a, b, c, o, s, g, f, h, k, i, x, y, arr, X) {\n  y = ${op};\n  ${op};\n}`, file: '/p/app.js', config: 'FULL' })
        }
      }
    })
  }
  // (ii-d) every program of the generated operation families (chains, prototype forms, += targets, + chains, templates)
  {
    const F = require('../grammar/families')
    const G = require('../grammar/space')
    const r = F.all(tier, { families: ['H', 'Q', 'R', 'N', 'L'], H: { L: 3 } })
    stats = addStats(stats, r.stats)
    for (const l of r.leaves) leaves.push({ fam: 'gen', key: 'gen:' + l.key, code: G.render(l), file: '/p/app.js', config: 'FULL' })
  }
  // (ii-a) syntax the parser may or may not accept depending on its options (proposals, old and new extensions):
  // alone and next to an instrumented function (accepted-but-unprintable syntax only shows when the file is printed)
  {
    const PROPOSALS = ["export v from 'mod';", "export v, { w } from 'mod';", "export * as ns from 'mod';", "export v, * as ns from 'mod';", "import d, * as ns2 from 'mod';", "import { 'string name' as sn } from 'mod';", "export { v as 'string name' };",
      "import j from './j.json' with { type: 'json' };", "import j2 from './j.json' assert { type: 'json' };", "import defer * as dn from 'mod';", "import source src from 'mod';", '@dec class D1 {}', 'class D2 { @dec m() {} }', '@dec export class D3 {}', 'export @dec class D4 {}',
      'const bound = o::m;', 'const piped = a |> f;', 'using res = g();', 'await using res2 = g();', 'const rec = #{ a: 1 };', 'const tup = #[1, 2];', 'const dx = do { 1 };', 'function fs(a) { return function.sent }', 'const v2 = a ?? b || c;', 'label: function lf() {}', 'const big = 1n ** -1n;',
      'class P { #p; static m(o) { return #p in o } }', 'class A2 { accessor x = 1 }', 'class S { static { await; } }', 'const re = /(?<n>a)\\k<n>/v;', 'const h = <div/>;', 'let x: number = 1;', 'enum E { A }', 'function ov(a?: string) {}', 'import type { T } from "mod";', 'type T2 = string;',
      'for await (const q of g()) {}', 'const y2 = yield;', 'new.target;', 'import.meta.url;', 'super.x;', 'return 1;', 'with (o) { p }', 'a => { "use strict"; 010 }', 'if (a) function decl() {}', '<!-- html comment', 'a\n--> html close comment', '#!second hashbang']
    const tail = "\nfunction main(a, b) { return a + b.trim() }\n"
    for (let i = 0; i < PROPOSALS.length; i++) for (const [wn, w] of [['alone', (x) => x + '\n'], ['before_fn', (x) => x + tail], ['after_fn', (x) => tail + x + '\n'], ['in_fn', (x) => 'function outer(a, b) { ' + x + '\n return a + b }\n'], ['in_async_fn', (x) => 'async function* outer(a, b) { ' + x + '\n return a + b }\n']]) for (const file of ['/p/app.js', '/p/app.mjs', '/p/app.ts']) {
      stats.states++; stats.transitions++
      leaves.push({ fam: 'proposals', key: 'prop:' + i + ':' + wn + ':' + file, code: w(PROPOSALS[i]), file, config: 'FULL' })
    }
  }
  // (ii-b) every literal placement of C14 (declarations, patterns, module declarations, wrappers): the literal
  // collector walks syntax the operation visitors never look at
  {
    const C14 = require('./C14.js')
    for (const place of C14.placementNames()) for (const lenIdx of (thorough ? [1, 6, 11] : [6])) {
      stats.states++; stats.transitions++
      leaves.push({ fam: 'lits', key: 'lits:' + place + ':' + lenIdx, code: C14.buildProgram(place, lenIdx, 'same_line', 'once', true, false, 'plain').text, file: '/p/app.js', config: 'FULL' })
    }
  }
  // (iii) file names x reference kinds x reader answers x settings
  {
    const bigTimes = thorough ? 64 * 1024 * 1024 : 8 * 1024 * 1024
    const dims = [
      { name: 'file', symbols: FILE_NAMES, free: true },
      { name: 'ref', symbols: Object.keys(REFS), free: true },
      { name: 'reader', symbols: Object.keys(READER_ANSWERS), free: true },
      { name: 'chain', symbols: [true, false], free: true },
      { name: 'comments', symbols: [false, true], free: true },
      { name: 'parent', symbols: ['trait', 'node'], free: true }
    ]
    const r = enumerate(dims, {
      valid: (cur, i) => {
        if (i >= 2 && !NEEDS_READER.has(cur.ref) && cur.reader !== 'valid') return false
        // the 8-64 MB answer only for the baseline file name (it costs ~0.1-1 s each)
        if (i >= 2 && cur.reader === 'big' && cur.file !== '/p/app.js' && cur.file !== '') return false
        return true
      }
    })
    stats = addStats(stats, r.stats)
    for (const l of r.leaves) {
      const p = l.pick
      const ans = Object.assign({}, READER_ANSWERS[p.reader])
      if (p.reader === 'big') ans.times = bigTimes
      leaves.push({
        fam: 'reader',
        key: `rd:${FILE_NAMES.indexOf(p.file)}:${p.ref}:${p.reader}:${p.chain}:${p.comments}:${p.parent}`,
        code: 'function f(a, b) {\n  return a + b\n}' + REFS[p.ref],
        file: p.file,
        config: Object.assign({}, C.FULL, { chainSourceMap: p.chain, comments: p.comments }),
        vfs: { '*': ans },
        parentMode: p.parent
      })
    }
  }
  // (ii-b) oversized but flat inputs (nesting depth stays small)
  {
    const big = [
      ['many_statements', 'function f(a, b) {\n' + 'x = a + b;\n'.repeat(thorough ? 60000 : 8000) + '}'],
      ['long_line', 'function f(a, b) { return ' + Array.from({ length: thorough ? 20000 : 3000 }, (_, i) => 'h(a' + i + ' + b)').join(', ') + ' }'],
      ['long_string', 'function f(a) { return a + "' + 'x'.repeat(thorough ? 4000000 : 300000) + '" }'],
      ['many_functions', Array.from({ length: thorough ? 20000 : 3000 }, (_, i) => `function f${i}(a) { return a?.trim() + ${i} }`).join('\n')],
      ['long_chain', 'function f(a) { return a' + '.trim()'.repeat(thorough ? 800 : 200) + ' }'],
      ['long_sum', 'function f(a) { return a' + ' + a'.repeat(thorough ? 800 : 200) + ' }'],
      ['long_template', 'function f(a) { return `' + '${a}x'.repeat(thorough ? 20000 : 2000) + '` }'],
      ['many_comments', '/* c */ '.repeat(thorough ? 200000 : 20000) + 'function f(a, b) { return a + b }']
    ]
    for (const [name, code] of big) for (const cfg of ['FULL', 'COMMENTS']) { stats.states++; stats.transitions++; leaves.push({ fam: 'big', key: 'big:' + name + ':' + cfg, code, file: '/p/big.js', config: cfg }) }
  }
  // (iii-b) the text of the reference itself: every token string of length <= Lu over the trigger tokens of
  // the URL handling (data-URL pieces, parameters, path pieces, characters whose case mapping changes their
  // UTF-8 length, separators)
  {
    const UTOK = ['data:', 'application/json', ';', 'charset=', 'utf-8', 'base64', ',', 'e30=', '\u212A', '\u0130', 'x.map', '/', '..', ' ', '%', '#', 'BASE64,', 'İ'.repeat(12)]
    const Lu = thorough ? 4 : 3
    const dims = []
    for (let i = 0; i < Lu; i++) dims.push({ name: 'u' + i, symbols: [''].concat(UTOK), free: true })
    dims.push({ name: 'prefix', symbols: ['', 'data:application/json;', 'data:application/json;charset='], free: true })
    const r = enumerate(dims, { valid: (cur, i) => i === 0 || i >= Lu || !(cur['u' + (i - 1)] === '' && cur['u' + i] !== '') })
    stats = addStats(stats, r.stats)
    for (const l of r.leaves) {
      let u = l.pick.prefix
      for (let i = 0; i < Lu; i++) u += l.pick['u' + i]
      leaves.push({ fam: 'url', key: 'url:' + u, code: 'function f(a, b) {\n  return a + b\n}\n//# sourceMappingURL=' + u + '\n', file: '/p/app.js', config: Object.assign({}, C.FULL, { chainSourceMap: true, comments: true }), vfs: { '*': READER_ANSWERS.valid } })
    }
  }
  // (iii-c) every sequence of <= Lr trailing items (references of each kind, ordinary comments, more code)
  // after a modified function: several references may hang off one token or off different ones
  {
    const ITEMS = {
      lineRel: '\n//# sourceMappingURL=x.map',
      lineInline: '\n//# sourceMappingURL=data:application/json;base64,' + b64(VALID_MAP),
      blockRel: ' /*# sourceMappingURL=y.map */',
      plainLine: '\n// just a comment',
      plainBlock: ' /* just a comment */',
      code: '\nfunction g(c){ return c + 1 }',
      semi: ';'
    }
    const Lr = thorough ? 5 : 4
    const dims = []
    for (let i = 0; i < Lr; i++) dims.push({ name: 'i' + i, symbols: [''].concat(Object.keys(ITEMS)), free: true })
    dims.push({ name: 'chain', symbols: [true, false], free: true })
    dims.push({ name: 'comments', symbols: [true, false], free: true })
    const r = enumerate(dims, { valid: (cur, i) => i === 0 || i >= Lr || !(cur['i' + (i - 1)] === '' && cur['i' + i] !== '') })
    stats = addStats(stats, r.stats)
    for (const l of r.leaves) {
      let tail = ''; const names = []
      for (let i = 0; i < Lr; i++) if (l.pick['i' + i]) { tail += ITEMS[l.pick['i' + i]]; names.push(l.pick['i' + i]) }
      leaves.push({ fam: 'refseq', key: `refseq:${names.join('+')}:${l.pick.chain}:${l.pick.comments}`, code: 'function f(a, b) {\n  return a + b\n}' + tail + '\n', file: '/p/app.js', config: Object.assign({}, C.FULL, { chainSourceMap: l.pick.chain, comments: l.pick.comments }), vfs: { '*': READER_ANSWERS.valid } })
    }
  }
  // (iii-d) a multi-byte character at every byte offset of the reference's text (any fixed-size truncation or
  // slicing of the comment must respect character boundaries)
  {
    const maxK = thorough ? 1100 : 270
    for (let k = 0; k < maxK; k++) for (const ch of ['ñ', '€', '😀']) for (const tail of ['.map', '€€€€.map']) {
      if (!thorough && tail !== '.map' && k % 4) continue
      stats.states++; stats.transitions++
      leaves.push({ fam: 'urlbmp', key: `urlbmp:${k}:${ch}:${tail}`, code: 'function f(a, b) {\n  return a + b\n}\n//# sourceMappingURL=' + 'm'.repeat(k) + ch + tail + '\n', file: '/p/app.js', config: Object.assign({}, C.FULL, { chainSourceMap: k % 2 === 0, comments: k % 3 === 0 }), vfs: { '*': READER_ANSWERS.notfound } })
    }
  }
  // (iv) configurations
  {
    const cfgs = weirdConfigs()
    const progs = ['function f(a, b) { return a + b.trim() + `${a}` }', 'function f(a) { return 1 }']
    for (const c of cfgs) {
      stats.states++
      for (let pi = 0; pi < progs.length; pi++) {
        stats.states++; stats.transitions++
        leaves.push({ fam: 'config', key: 'cfg:' + c.desc + ':' + pi, code: progs[pi], file: '/p/app.js', config: c.config })
      }
    }
  }
  // (v) multi-byte characters at every byte offset of leading text of a modified file
  {
    const dims = [
      { name: 'offset', symbols: Array.from({ length: thorough ? 300 : 256 }, (_, i) => i), free: true },
      { name: 'chars', symbols: ['ñ', '€', 'ñ€', '😀'], free: true },
      { name: 'where', symbols: ['block', 'line', 'string', 'template'], free: true },
      { name: 'eol', symbols: ['\n', '\r\n'], free: true },
      { name: 'cfg', symbols: ['FULL', 'COMMENTS'], free: true }
    ]
    const r = enumerate(dims, {})
    stats = addStats(stats, r.stats)
    for (const l of r.leaves) {
      const p = l.pick
      const pad = 'a'.repeat(p.offset) + p.chars
      const lead = p.where === 'block' ? `/* ${pad} */` : p.where === 'line' ? `// ${pad}` : p.where === 'string' ? `'${pad}';` : '`' + pad + '`;'
      leaves.push({ fam: 'bmp', key: `bmp:${p.offset}:${p.chars}:${p.where}:${p.eol === '\n' ? 'lf' : 'crlf'}:${p.cfg}`, code: lead + p.eol + 'function f(a, b) {' + p.eol + '  return a + b' + p.eol + '}' + p.eol, file: '/p/app.js', config: p.cfg })
    }
  }
  return {
    leaves,
    stats,
    bound: { token_string_length: L, seeds: SEEDS.length, mutation: 'single token del/dup/sub/prefix', reader: 'full product file x ref x answer x chain x comments x parent-mode', bmp_offsets: thorough ? 300 : 256 },
    alphabets: { tokens: TOKENS, file_names: FILE_NAMES.map((f) => f.length > 40 ? f.slice(0, 10) + '…(' + f.length + ')' : f), refs: Object.keys(REFS), reader_answers: Object.keys(READER_ANSWERS) }
  }
}

function resolveConfig (c) { return typeof c === 'string' ? C[c] : c }

function requests (leaf) {
  return [{ config: resolveConfig(leaf.config), file: leaf.file, code: leaf.code, vfs: leaf.vfs, parentMode: leaf.parentMode }]
}

function normPanic (msg) {
  let m = String(msg || '')
  m = m.replace(/\/root\/\.cargo\/registry\/src\/[^/]+\//, '').replace(/:\d+$/, '')
  // (the quoted source snippet may itself contain backticks: from the first to the last one)
  m = m.replace(/`[\s\S]*`/, '`…`').replace(/\d+/g, 'N')
  return m.slice(0, 160)
}

async function check (leaf, resps) {
  const r = resps[0]
  const violations = []
  let outcome = r.status
  if (r.status === 'ok') {
    outcome = 'ok:' + (r.metrics ? r.metrics.status : '?')
  } else if (r.status === 'err') {
    if (!r.error || !String(r.error).trim()) violations.push({ rule: 'empty-diagnostic', sig: leaf.fam, detail: 'Err with empty message for ' + JSON.stringify(leaf.code).slice(0, 200) })
    outcome = /Variable name duplicated/.test(r.error) ? 'err:cancelled' : 'err:syntax'
  } else if (r.status === 'panic') {
    violations.push({ rule: 'panic', sig: normPanic(r.error), detail: `panic "${r.error}" file=${JSON.stringify(leaf.file).slice(0, 60)} code=${JSON.stringify(leaf.code).slice(0, 300)}` })
  } else {
    violations.push({ rule: r.status, sig: leaf.fam, detail: `${r.status} (${r.code || ''} ${r.signal || ''}) on ${leaf.key} code=${JSON.stringify(leaf.code).slice(0, 300)}` })
  }
  return { nontrivial: true, outcome: leaf.fam + ':' + outcome, violations, distinctKey: leaf.code.length > 100000 ? leaf.key : JSON.stringify([leaf.code, leaf.file, leaf.config, leaf.vfs, leaf.parentMode]), sample: { family: leaf.fam, file: String(leaf.file).slice(0, 80), code: leaf.code.slice(0, 200) + (leaf.code.length > 200 ? '…(' + leaf.code.length + ' chars)' : ''), status: r.status, micros: r.micros } }
}

module.exports = {
  id: 'C13',
  build,
  requests,
  check,
  timeoutMs: 30000,
  rule: 'leaves = every token string of length<=L over a 14-token alphabet (raw and inside a function body), every character string of length <= 3 (4) over 42 lexer-steering characters (raw; the shorter ones also inside a function body), every single-token del/dup/substitution/prefix of 40 seed programs, every program of the generated families H/Q/R/N/L, every grammar schema plain and with 1-3 (6) extra pairs of parentheses around operands / assignment target / whole operation, the full product file-name x map-reference x reader-answer x chain x comments x parent-mode, every sequence of <= 4 (5) trailing references/comments/code items x chain x comments, 2^6 option-presence patterns x verbosity spellings + malformed configs, every byte offset 0..255 of a multi-byte character in leading text, every byte offset 0..269 (1099) of a multi-byte character in the text of the map reference; every leaf is one real rewrite call, all are non-trivial (each is a distinct input tuple; distinctness by hash of (code,file,config,vfs,parent-mode))',
  explanation: 'explicit enumeration of the input/fault space executed against the real rewriter (Rust sources of the working tree) under catch_unwind + watchdog; oracle = call returns Ok or Err(non-empty message)',
  assumptions: ['native build of the rewriter (serde_json instead of serde-wasm-bindgen; in-memory FileReader with both the trait-default and a Node-dirname `parent`)', 'pathological nesting depth excluded by the property statement; no deep-nesting inputs are generated', 'watchdog 30 s per call']
}
