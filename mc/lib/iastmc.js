'use strict'
// Client for the `iastmc` JSONL service (the real rewriter compiled from the repo's working tree).
// Requests are pipelined; responses arrive in request order. If the service dies (abort, stack
// overflow, OOM) or the watchdog fires, the *first* pending request is blamed and the remaining ones
// are re-sent to a fresh process, so one bad input never hides the verdict for the others.
const { spawn } = require('child_process')
const path = require('path')
const readline = require('readline')

const BIN = process.env.IASTMC_BIN || path.join(__dirname, '..', '..', 'harness', 'target', 'debug', 'iastmc')

class Service {
  constructor (opts = {}) {
    this.timeoutMs = opts.timeoutMs || 20000
    this.pending = [] // {req, resolve}
    this.nextId = 1
    this.proc = null
    this.restarts = 0
    this.closed = false
    this.timeouts = 0
    this.maxTimeouts = opts.maxTimeouts || 4 // circuit breaker: a systematic hang must not cost 20 s per leaf
    this.tripped = false
  }

  _start () {
    const proc = spawn(BIN, [], {
      stdio: ['pipe', 'pipe', 'ignore'],
      env: Object.assign({}, process.env, { IASTMC_TIMEOUT_MS: String(this.timeoutMs) })
    })
    this.proc = proc
    proc.stdin.on('error', () => {})
    const rl = readline.createInterface({ input: proc.stdout, crlfDelay: Infinity })
    rl.on('line', (line) => {
      let resp
      try { resp = JSON.parse(line) } catch (e) { return }
      const head = this.pending[0]
      if (!head) return
      if (resp.id !== head.req.id) return // stale line from a dying process
      this.pending.shift()
      if (resp.status === 'timeout') { proc._expectDeath = true; this.timeouts++ } // watchdog answers, then exits
      resp.id = head.userId
      head.resolve(resp)
      if (this.timeouts >= this.maxTimeouts && !this.tripped) this._trip()
    })
    proc.on('close', (code, signal) => {
      if (this.proc !== proc) return
      this.proc = null
      if (this.closed) return
      if (this.pending.length) {
        // blame the head (unless the watchdog already answered it), resend the rest
        if (!proc._expectDeath) {
          const head = this.pending.shift()
          head.resolve({ id: head.userId, status: 'abort', code, signal })
        }
        const rest = this.pending
        this.pending = []
        this.restarts++
        for (const p of rest) this._send(p)
      }
    })
  }

  // after maxTimeouts hangs every outstanding and later request is answered `skipped` (the hangs
  // themselves have been reported; the run is marked as capped by the caller)
  _trip () {
    this.tripped = true
    const rest = this.pending
    this.pending = []
    const proc = this.proc
    this.proc = null
    if (proc) { try { proc.kill('SIGKILL') } catch (e) {} }
    for (const p of rest) p.resolve({ id: p.userId, status: 'skipped' })
  }

  _send (p) {
    if (this.tripped) { p.resolve({ id: p.userId, status: 'skipped' }); return }
    if (!this.proc) this._start()
    this.pending.push(p)
    this.proc.stdin.write(JSON.stringify(p.req) + '\n')
  }

  send (req) {
    return new Promise((resolve) => {
      const r = Object.assign({}, req, { id: this.nextId++ })
      this._send({ req: r, resolve, userId: req.id })
    })
  }

  close () {
    this.closed = true
    if (this.proc) { try { this.proc.stdin.end() } catch (e) {} }
  }
}

// one-shot helper: run a list of requests in ONE fresh process, return responses in order
function runOnce (reqs, opts = {}) {
  const s = new Service(opts)
  return Promise.all(reqs.map((r) => s.send(r))).then((res) => { s.close(); return res })
}

module.exports = { Service, runOnce, BIN }
