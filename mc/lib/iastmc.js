'use strict'
// Client for the `iastmc` JSONL service (the real rewriter compiled from the repo's working tree).
// Requests are pipelined; responses arrive in request order. If the service dies (abort, stack
// overflow, OOM) or the watchdog fires, the *first* pending request is blamed and the remaining ones
// are re-sent to a fresh process, so one bad input never hides the verdict for the others.
const { spawn } = require('child_process')
const path = require('path')
const readline = require('readline')

const BIN = process.env.IASTMC_BIN || path.join(__dirname, '..', '..', 'harness', 'target', 'debug', 'iastmc')

class Service {
  constructor (opts = {}) {
    this.timeoutMs = opts.timeoutMs || 20000
    this.pending = [] // {req, resolve}
    this.nextId = 1
    this.proc = null
    this.restarts = 0
    this.closed = false
  }

  _start () {
    const proc = spawn(BIN, [], {
      stdio: ['pipe', 'pipe', 'ignore'],
      env: Object.assign({}, process.env, { IASTMC_TIMEOUT_MS: String(this.timeoutMs) })
    })
    this.proc = proc
    proc.stdin.on('error', () => {})
    const rl = readline.createInterface({ input: proc.stdout, crlfDelay: Infinity })
    rl.on('line', (line) => {
      let resp
      try { resp = JSON.parse(line) } catch (e) { return }
      const head = this.pending[0]
      if (!head) return
      if (resp.id !== head.req.id) return // stale line from a dying process
      this.pending.shift()
      if (resp.status === 'timeout') proc._expectDeath = true // watchdog answers, then exits
      resp.id = head.userId
      head.resolve(resp)
    })
    proc.on('close', (code, signal) => {
      if (this.proc !== proc) return
      this.proc = null
      if (this.closed) return
      if (this.pending.length) {
        // blame the head (unless the watchdog already answered it), resend the rest
        if (!proc._expectDeath) {
          const head = this.pending.shift()
          head.resolve({ id: head.userId, status: 'abort', code, signal })
        }
        const rest = this.pending
        this.pending = []
        this.restarts++
        for (const p of rest) this._send(p)
      }
    })
  }

  _send (p) {
    if (!this.proc) this._start()
    this.pending.push(p)
    this.proc.stdin.write(JSON.stringify(p.req) + '\n')
  }

  send (req) {
    return new Promise((resolve) => {
      const r = Object.assign({}, req, { id: this.nextId++ })
      this._send({ req: r, resolve, userId: req.id })
    })
  }

  close () {
    this.closed = true
    if (this.proc) { try { this.proc.stdin.end() } catch (e) {} }
  }
}

// one-shot helper: run a list of requests in ONE fresh process, return responses in order
function runOnce (reqs, opts = {}) {
  const s = new Service(opts)
  return Promise.all(reqs.map((r) => s.send(r))).then((res) => { s.close(); return res })
}

module.exports = { Service, runOnce, BIN }
