'use strict'
// Worker: re-derives the (deterministic) leaf list of a driver, takes the leaves assigned to it,
// executes each against the real implementation through its own iastmc service and runs the
// driver's oracle on every one. Reports counts and violations to the master over IPC.
const crypto = require('crypto')
const { Service } = require('./iastmc')

function h (s) { return crypto.createHash('sha1').update(s).digest('hex').slice(0, 16) }

async function main () {
  const [driverFile, tier, wStr, WStr, seedStr] = process.argv.slice(2)
  const w = Number(wStr); const W = Number(WStr); const seed = Number(seedStr)
  const driver = require(driverFile)
  const service = new Service({ timeoutMs: driver.timeoutMs || 20000 })
  const ctx = { tier, seed, service, worker: w, workers: W }
  const built = await driver.build(tier, ctx)
  const leaves = built.leaves
  const out = {
    w,
    evaluations: 0,
    nontrivialHashes: [],
    outcomes: {},
    violations: [],
    violationCount: 0,
    samples: [],
    notes: {},
    restarts: 0
  }
  const mine = []
  for (let i = 0; i < leaves.length; i++) if (i % W === w) mine.push(i)
  // seed only permutes dispatch order (and therefore which leaves get quoted as samples)
  if (seed) {
    let x = (seed * 2654435761) >>> 0
    for (let i = mine.length - 1; i > 0; i--) {
      x = (x * 1664525 + 1013904223) >>> 0
      const j = x % (i + 1); const t = mine[i]; mine[i] = mine[j]; mine[j] = t
    }
  }
  const maxInflight = driver.inflight || 24
  let next = 0
  const seenSig = new Set()
  async function one (i) {
    const leaf = leaves[i]
    const reqs = driver.requests ? driver.requests(leaf, ctx) : []
    const resps = await Promise.all(reqs.map((r) => service.send(r)))
    if (service.tripped && resps.some((r) => r.status === 'skipped')) { out.outcomes.skipped_after_hangs = (out.outcomes.skipped_after_hangs || 0) + 1; return }
    const res = await driver.check(leaf, resps, ctx)
    out.evaluations += res.evaluations || 1
    if (res.nontrivial) out.nontrivialHashes.push(h(res.distinctKey || JSON.stringify(reqs.length ? reqs : leaf)))
    const oc = res.outcome || 'ok'
    out.outcomes[oc] = (out.outcomes[oc] || 0) + 1
    if (res.notes) for (const k of Object.keys(res.notes)) out.notes[k] = (out.notes[k] || 0) + res.notes[k]
    if (out.samples.length < 3 && res.nontrivial) out.samples.push(res.sample || (driver.sample ? driver.sample(leaf, resps) : { leaf: leaf.key || leaf }))
    for (const v of (res.violations || [])) {
      out.violationCount++
      const key = v.rule + '|' + v.sig
      if (seenSig.has(key)) continue
      seenSig.add(key)
      if (out.violations.length < 400) out.violations.push(Object.assign({ leaf, leafIndex: i }, v))
    }
  }
  const running = new Set()
  while (next < mine.length || running.size) {
    if (service.tripped && next < mine.length) { out.outcomes.skipped_after_hangs = (out.outcomes.skipped_after_hangs || 0) + (mine.length - next); next = mine.length }
    while (next < mine.length && running.size < maxInflight) {
      const p = one(mine[next++]).catch((e) => { throw e })
      running.add(p)
      p.then(() => running.delete(p), () => running.delete(p))
    }
    if (running.size) await Promise.race(running)
  }
  out.restarts = service.restarts
  if (driver.finish) out.finish = await driver.finish(ctx)
  service.close()
  process.send(out, () => process.exit(0))
}

main().catch((e) => {
  try { process.send({ machineryError: String(e && e.stack || e) }, () => process.exit(2)) } catch (e2) { process.exit(2) }
})
