'use strict'
// Generic bounded-exhaustive explorer.
//
// A *space* is an ordered list of dimensions. Each dimension has an ordered alphabet of symbols
// (simplest first; index 0 is the baseline) and a cost rule:
//   free:true  -> any symbol costs 0 deviations (the full product of free dimensions is taken)
//   otherwise  -> a non-baseline symbol costs 1 deviation
// The explorer walks the derivation tree depth-first (dimension by dimension), pruning branches
// whose deviation count would exceed the bound k, and optionally branches rejected by `valid`
// (a predicate over partial assignments: incompatible symbol combinations). Every tree node is a
// *state* (a partial assignment), every chosen symbol a *transition*; complete assignments are
// *leaves*. Nothing is sampled: the counts are what was actually enumerated.
//
// For history spaces (sequences of events up to length h) use `histories`.

function enumerate (dims, opts) {
  const k = opts.k === undefined ? Infinity : opts.k
  const valid = opts.valid || (() => true)
  const leaves = []
  const stats = { states: 1, transitions: 0, leaves: 0, pruned_by_bound: 0, pruned_invalid: 0 }
  const cur = {}
  const idx = {}
  function rec (i, dev) {
    if (i === dims.length) {
      stats.leaves++
      leaves.push({ pick: Object.assign({}, cur), idx: Object.assign({}, idx), dev })
      return
    }
    const d = dims[i]
    for (let s = 0; s < d.symbols.length; s++) {
      const cost = (d.free || s === 0) ? 0 : 1
      if (dev + cost > k) { stats.pruned_by_bound++; continue }
      cur[d.name] = d.symbols[s]
      idx[d.name] = s
      if (!valid(cur, i, dims)) { stats.pruned_invalid++; delete cur[d.name]; delete idx[d.name]; continue }
      stats.states++
      stats.transitions++
      rec(i + 1, dev + cost)
      delete cur[d.name]
      delete idx[d.name]
    }
  }
  rec(0, 0)
  // breadth-first by number of deviations, then lexicographic by symbol indices: the first
  // counterexample reported is then a minimal one
  leaves.sort((a, b) => a.dev - b.dev)
  return { leaves, stats }
}

// all sequences over `alphabet` of length 1..h (optionally filtered by `valid(prefix)`), as a tree
function histories (alphabet, h, valid) {
  const out = []
  const stats = { states: 1, transitions: 0, leaves: 0 }
  function rec (prefix) {
    if (prefix.length) { out.push(prefix.slice()); stats.leaves++ }
    if (prefix.length === h) return
    for (const a of alphabet) {
      prefix.push(a)
      if (!valid || valid(prefix)) {
        stats.states++
        stats.transitions++
        rec(prefix)
      }
      prefix.pop()
    }
  }
  rec([])
  return { histories: out, stats }
}

function addStats (a, b) {
  const r = Object.assign({}, a)
  for (const k of Object.keys(b)) r[k] = (r[k] || 0) + b[k]
  return r
}

// cartesian product helper (counts as a full-product sub-tree)
function product (lists) {
  let out = [[]]
  for (const l of lists) {
    const n = []
    for (const p of out) for (const x of l) n.push(p.concat([x]))
    out = n
  }
  return out
}

module.exports = { enumerate, histories, addStats, product }
