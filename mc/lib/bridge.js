'use strict'
// Makes <repo>/main.js loadable offline: Module._load interception supplies
//  (a) a tiny `lru-cache` stand-in (the package is not installed; it is scaffolding, not subject),
//  (b) `./wasm/wasm_iast_rewriter` = a class whose constructor/rewrite/csiMethods are answered from
//      responses of the native iastmc service (pre-computed by the driver, or fetched synchronously).
// The wasm build itself needs the wasm32 target + wasm-bindgen CLI, neither is present.
const Module = require('module')
const path = require('path')
const { spawnSync } = require('child_process')
const { BIN } = require('./iastmc')

const REPO = process.env.VERIF_REPO || '/repo'

class LRUStub {
  constructor (opts) { this.max = (opts && opts.max) || 1000; this.m = new Map() }
  get (k) { if (!this.m.has(k)) return undefined; const v = this.m.get(k); this.m.delete(k); this.m.set(k, v); return v }
  set (k, v) { if (this.m.has(k)) this.m.delete(k); this.m.set(k, v); if (this.m.size > this.max) this.m.delete(this.m.keys().next().value); return this }
  has (k) { return this.m.has(k) }
  delete (k) { return this.m.delete(k) }
  clear () { this.m.clear() }
}

const precomputed = new Map()
function key (config, code, file) { return JSON.stringify([config === undefined ? null : config, code, file]) }
function provide (config, code, file, resp) { precomputed.set(key(config, code, file), resp) }
// answers registered for a leaf are only needed while that leaf is judged (a long run would keep them all)
function forget () { precomputed.clear() }
const stats = { sync_calls: 0, precomputed_hits: 0 }

function callSync (req) {
  stats.sync_calls++
  const r = spawnSync(BIN, [], { input: JSON.stringify(Object.assign({ id: 1 }, req)) + '\n', encoding: 'utf8', maxBuffer: 1 << 28 })
  const line = (r.stdout || '').split('\n').find((l) => l.trim())
  if (!line) return { status: 'abort', code: r.status, signal: r.signal }
  return JSON.parse(line)
}

function shape (resp) {
  // what serde_wasm_bindgen::to_value(Result) looks like on the JS side
  if (resp.status === 'ok') {
    const out = { content: resp.content }
    if (resp.metrics) out.metrics = { status: resp.metrics.status, instrumentedPropagation: resp.metrics.instrumentedPropagation, file: resp.metrics.file, propagationDebug: resp.metrics.propagationDebug || undefined }
    if (resp.literalsResult) out.literalsResult = resp.literalsResult
    return out
  }
  const e = new Error(resp.error || ('native rewriter ' + resp.status))
  e.nativeStatus = resp.status
  throw e
}

class NativeStub {
  constructor (config) { this.config = config; NativeStub.instances++ }
  rewrite (code, file) {
    const k = key(this.config, code, file)
    let resp = precomputed.get(k)
    if (resp) stats.precomputed_hits++
    else { resp = callSync({ config: this.config === undefined ? null : this.config, code, file, vfs: NativeStub.vfs, parentMode: 'node' }); precomputed.set(k, resp) }
    return shape(resp)
  }

  csiMethods () {
    const r = callSync({ op: 'config', config: this.config === undefined ? null : this.config })
    return r.configDump.dstMethods
  }

  setLogger () {}
}
NativeStub.instances = 0
NativeStub.vfs = undefined

let installed = false
function install () {
  if (installed) return
  installed = true
  const orig = Module._load
  Module._load = function (request, parent, isMain) {
    if (request === 'lru-cache') return LRUStub
    if (request === './wasm/wasm_iast_rewriter' && parent && parent.filename === path.join(REPO, 'main.js')) return { Rewriter: NativeStub }
    return orig.apply(this, arguments)
  }
}

// fresh module instances (module-level caches are part of the state under test)
function loadMain () {
  install()
  for (const k of Object.keys(require.cache)) if (k.startsWith(REPO + path.sep)) delete require.cache[k]
  return require(path.join(REPO, 'main.js'))
}

module.exports = { loadMain, provide, forget, NativeStub, LRUStub, stats, REPO, callSync }
