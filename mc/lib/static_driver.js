'use strict'
// Shared skeleton of the drivers whose oracle is static (annotated erasure + lock-step walk):
// leaves come from grammar G families and optionally from the corpus of real library files.
const fs = require('fs')
const path = require('path')
const C = require('../grammar/configs')
const G = require('../grammar/space')
const F = require('../grammar/families')
const { analyse, WANT } = require('../oracles/analyse')

const CORPUS_DIR = path.join(__dirname, '..', '..', 'corpus')

function corpusLeaves (tier, configs, limit) {
  const idx = JSON.parse(fs.readFileSync(path.join(CORPUS_DIR, 'INDEX.json'), 'utf8'))
  const files = limit ? idx.slice(0, limit) : idx
  const leaves = []
  const stats = { states: 0, transitions: 0 }
  for (const f of files) {
    stats.states++; stats.transitions++
    for (const c of configs) {
      stats.states++; stats.transitions++
      leaves.push({ fam: 'corpus', key: 'corpus¦' + f.file + '¦' + c, corpusFile: f.file, config: c })
    }
  }
  return { leaves, stats }
}

function leafCode (leaf) {
  if (leaf.code !== undefined) return leaf.code
  if (leaf.corpusFile) return fs.readFileSync(path.join(CORPUS_DIR, leaf.corpusFile), 'utf8')
  return G.render(leaf)
}
function leafConfig (leaf) { return typeof leaf.config === 'string' ? C[leaf.config] : leaf.config }
function leafFile (leaf) { return leaf.file || (leaf.corpusFile ? '/p/corpus/' + leaf.corpusFile.replace(/^\d+_/, '') : '/p/app.js') }

function describe (leaf) {
  if (leaf.corpusFile) return 'corpus:' + leaf.corpusFile + ' cfg=' + leaf.config
  if (leaf.code !== undefined) return (leaf.desc || leaf.key) + ' :: ' + leaf.code.slice(0, 300)
  return `${leaf.fam} op=${G.fill(leaf.op, leaf)} ectx=${leaf.exprctx} sctx=${leaf.stmtctx} scope=${leaf.scope} cfg=${leaf.config}`
}

function mk (spec) {
  return {
    id: spec.id,
    async build (tier, ctx) {
      let leaves = []
      let stats = { states: 1, transitions: 0 }
      const add = (r) => { leaves = leaves.concat(r.leaves); for (const k of Object.keys(r.stats)) stats[k] = (stats[k] || 0) + r.stats[k] }
      if (spec.families) add(F.all(tier, Object.assign({ families: spec.families }, spec.familyOpts ? spec.familyOpts(tier) : {})))
      if (spec.corpus) add(corpusLeaves(tier, spec.corpus.configs, tier === 'thorough' ? 0 : spec.corpus.quickLimit))
      if (spec.extra) add(await spec.extra(tier, ctx))
      return { leaves, stats, bound: spec.bound ? spec.bound(tier) : {}, alphabets: spec.alphabets ? spec.alphabets(tier) : {} }
    },
    requests (leaf) {
      if (spec.requests) return spec.requests(leaf)
      return [{ config: spec.configOf ? spec.configOf(leaf) : leafConfig(leaf), file: leafFile(leaf), code: leafCode(leaf), want: WANT }]
    },
    async check (leaf, resps, ctx) {
      const r = resps[0]
      const config = spec.configOf ? spec.configOf(leaf) : leafConfig(leaf)
      const a = analyse(r, config)
      const res = { nontrivial: false, outcome: r.status === 'ok' ? (a.modified ? 'modified' : 'notmodified') : 'rejected:' + r.status, violations: [], distinctKey: leafCode(leaf) + '|' + JSON.stringify(config) + '|' + leafFile(leaf) }
      const v = (rule, sig, detail) => res.violations.push({ rule, sig, detail: detail + '\n  leaf: ' + describe(leaf) })
      await spec.oracle({ leaf, resp: r, a, v, res, config, ctx, code: leafCode(leaf) })
      if (res.violations.length) res.outcome = 'violation'
      if (!res.sample) res.sample = { leaf: describe(leaf).slice(0, 300), outcome: res.outcome, hooks: a.erasure ? a.erasure.hooks.length : 0 }
      return res
    },
    inflight: 16,
    thoroughWorkers: spec.thoroughWorkers,
    thoroughHeapMB: spec.thoroughHeapMB,
    rule: spec.rule + (spec.families ? ' [grammar families of this check, see DESIGN section 9: ' + spec.families.join(',') + (spec.extra ? ' + the property\'s own families' : '') + ']' : ''),
    explanation: spec.explanation,
    assumptions: spec.assumptions
  }
}

module.exports = { mk, corpusLeaves, leafCode, leafConfig, leafFile, describe }
