'use strict'
// Leaf families over grammar G. Every family is a bounded-exhaustive enumeration (explore.enumerate):
//   A  every operation schema x every operand atom in every slot, neutral context
//   B  every statement context x expression context x representative operation, with up to k
//      deviations among {scope kind, statement ctx, expression ctx, configuration}
//   C  every schema nested in every operand slot of every schema (depth 2)
//   G  async / generator contexts
const { enumerate, addStats } = require('../lib/explore')
const G = require('./space')

const REP_OPS = [
  { tpl: 'a + f()', kind: 'plus' },
  { tpl: 'o.p += f()', kind: 'assign' },
  { tpl: '`${a}${f()}`', kind: 'tpl' },
  { tpl: 's.trim()', kind: 'method' },
  { tpl: 's?.trim().length', kind: 'chain' },
  { tpl: 'X.prototype.concat.call(a, f())', kind: 'proto' },
  { tpl: 'a.concat(b, ...arr)', kind: 'method' },
  { tpl: 'aloneMethod(a)', kind: 'bare' },
  { tpl: 'g().concat(f())', kind: 'method' },
  { tpl: "a + 'l' + f() + `${b}`", kind: 'plus' },
  { tpl: "'l' + 'm'", kind: 'none' },
  { tpl: 'a.toUpperCase()', kind: 'none' }
]
const REP_OPS_Q = REP_OPS.slice(0, 8)
const CONFIGS = ['FULL', 'PLUS_ONLY', 'TPL_ONLY', 'METHODS_ONLY', 'RENAMED', 'COMMENTS', 'NOTHING', 'SHARED_DST']
const SCOPE_NAMES = Object.keys(G.SCOPES)
const STMT_NAMES = Object.keys(G.STMTCTX)
const ASYNC_STMTS = new Set(['async', 'async_fn'])
const GEN_STMTS = new Set(['generator'])

function mkLeaf (fam, p) {
  const leaf = { fam, op: p.op, X: p.X, Y: p.Y, Z: p.Z, S: p.S, exprctx: p.exprctx || '@@', stmtctx: p.stmtctx || 'expr', scope: p.scope || 'sloppy', config: p.config || 'FULL', opkind: p.opkind }
  leaf.key = [fam, leaf.op, leaf.X, leaf.Y, leaf.Z, leaf.S, leaf.exprctx, leaf.stmtctx, leaf.scope, leaf.config].map((x) => x === undefined ? '' : x).join('¦')
  return leaf
}

function familyA (tier, opts = {}) {
  const atoms = tier === 'thorough' ? G.ATOMS_T : G.ATOMS_Q
  const atomsZ = tier === 'thorough' ? G.ATOMS_Q : G.ATOMS_Q.slice(0, 7) // third slot: reduced alphabet in the quick tier
  const leaves = []
  let stats = { states: 0, transitions: 0 }
  const schemas = opts.kinds ? G.SCHEMAS.filter((s) => opts.kinds.includes(s.kind)) : G.SCHEMAS
  for (const sc of schemas) {
    const dims = sc.slots.map((s) => ({ name: s, symbols: s === 'S' ? G.SPREADS : s === 'Z' ? atomsZ : atoms, free: true }))
    const r = enumerate(dims, {})
    stats = addStats(stats, r.stats)
    stats.states++; stats.transitions++ // choosing the schema
    for (const l of r.leaves) leaves.push(mkLeaf('A', Object.assign({ op: sc.tpl, opkind: sc.kind }, l.pick)))
  }
  return { leaves, stats }
}

function familyB (tier, opts = {}) {
  const ops = opts.ops || (tier === 'thorough' ? REP_OPS : REP_OPS_Q)
  const k = opts.k || (tier === 'thorough' ? 3 : 2)
  const stmts = STMT_NAMES.filter((s) => !ASYNC_STMTS.has(s) && !GEN_STMTS.has(s))
  const dims = [
    { name: 'op', symbols: ops, free: true },
    { name: 'stmtctx', symbols: stmts },
    { name: 'exprctx', symbols: G.EXPRCTX },
    { name: 'scope', symbols: SCOPE_NAMES },
    { name: 'config', symbols: opts.configs || CONFIGS }
  ]
  const r = enumerate(dims, {
    k,
    valid: (cur) => {
      if (cur.stmtctx && G.STMT_SLOPPY_ONLY.has(cur.stmtctx) && cur.scope && (cur.scope === 'strict_fn' || cur.scope === 'strict_file' || cur.scope === 'module')) return false
      // optional reduction: a second deviation only as (statement ctx, expression ctx) pair
      if (opts.pairs === 'ctx-only' && cur.config !== undefined) {
        const dev = ['stmtctx', 'exprctx', 'scope', 'config'].filter((d) => cur[d] !== dims.find((x) => x.name === d).symbols[0])
        if (dev.length === 2 && !(dev.includes('stmtctx') && dev.includes('exprctx'))) return false
      }
      return true
    }
  })
  const leaves = r.leaves.map((l) => mkLeaf('B', { op: l.pick.op.tpl, opkind: l.pick.op.kind, stmtctx: l.pick.stmtctx, exprctx: l.pick.exprctx, scope: l.pick.scope, config: l.pick.config }))
  return { leaves, stats: r.stats }
}

function familyC (tier, opts = {}) {
  // depth-2 nesting: outer schema, one of its slots, inner schema (inner operands at their defaults)
  const leaves = []
  const stats = { states: 0, transitions: 0 }
  const inner = opts.inner || (tier === 'thorough' ? G.SCHEMAS : G.SCHEMAS.filter((x) => !x.tail))
  const innerDefaults = { X: 'f()', Y: 'b', Z: 'a' }
  for (const outer of G.SCHEMAS) {
    if (!outer.slots.length) continue
    stats.states++; stats.transitions++
    for (const slot of outer.slots) {
      stats.states++; stats.transitions++
      for (const inn of inner) {
        if (inn.kind === 'assign' && !/^\w+ \+=/.test(inn.tpl) && tier !== 'thorough') continue
        stats.states++; stats.transitions++
        const innerText = '(' + G.fill(inn.tpl, innerDefaults) + ')'
        const pick = { op: outer.tpl, opkind: outer.kind + '<' + inn.tpl }
        for (const s of outer.slots) pick[s] = s === slot ? (s === 'S' ? '[' + innerText + ']' : innerText) : (s === 'X' ? 'a' : s === 'Y' ? 'g(2)' : s === 'S' ? 'arr' : 'b')
        leaves.push(mkLeaf('C', pick))
      }
    }
  }
  if (!opts.noDepth3) {
    // depth 3: representative outer and middle schemas (one per rewriting path); innermost: every schema in
    // the thorough tier, the representatives in the quick tier
    const REP = ['@X@ + @Y@', 'x += @Y@', 'g().p += @Y@', '`p${@X@}q${@Y@}r`', 'a.concat(@X@, @Y@)', '@X@.concat(@Y@)', '@X@?.trim()', 'o?.q.concat(@X@)', 'X.prototype.concat.call(@X@, @Y@)', 'X.prototype.concat.apply(a, [@X@, @Y@])', 'aloneMethod(@X@)', 'a.concat(...@S@)']
    const reps = G.SCHEMAS.filter((x) => REP.includes(x.tpl))
    for (const outer of reps) {
      for (const oslot of outer.slots) {
        for (const mid of reps) {
          for (const mslot of mid.slots) {
            stats.states++; stats.transitions++
            for (const inn of (tier === 'thorough' ? inner : reps)) {
              stats.states++; stats.transitions++
              const innerText = '(' + G.fill(inn.tpl, innerDefaults) + ')'
              const mpick = {}
              for (const s2 of mid.slots) mpick[s2] = s2 === mslot ? (s2 === 'S' ? '[' + innerText + ']' : innerText) : (s2 === 'X' ? 'b' : s2 === 'Y' ? 'f()' : s2 === 'S' ? 'arr' : 'a')
              const midText = '(' + G.fill(mid.tpl, mpick) + ')'
              const pick = { op: outer.tpl, opkind: outer.kind + '<' + mid.tpl + '<' + inn.tpl }
              for (const s3 of outer.slots) pick[s3] = s3 === oslot ? (s3 === 'S' ? '[' + midText + ']' : midText) : (s3 === 'X' ? 'a' : s3 === 'Y' ? 'g(2)' : s3 === 'S' ? 'arr' : 'b')
              leaves.push(mkLeaf('C', pick))
            }
          }
        }
      }
    }
  }
  return { leaves, stats }
}

// operations whose OPERANDS suspend the function (await / yield between a temporary's assignment and its use)
const G_ASYNC_OPS = [{ tpl: '(await a) + f()', kind: 'plus' }, { tpl: 'f() + (await b)', kind: 'plus' }, { tpl: '`${await a}${f()}${await b}`', kind: 'tpl' }, { tpl: '(await a).concat(f(), await b)', kind: 'method' }, { tpl: 'o.q.p += await b', kind: 'assign' }, { tpl: '(await s)?.trim()', kind: 'chain' }]
const G_GEN_OPS = [{ tpl: '(yield a) + f()', kind: 'plus' }, { tpl: 'f() + (yield b)', kind: 'plus' }, { tpl: '`${yield a}${f()}`', kind: 'tpl' }, { tpl: 'a.concat(f(), yield b)', kind: 'method' }, { tpl: 'g().p += yield b', kind: 'assign' }]

function familyG (tier, opts = {}) {
  const ops = opts.ops || REP_OPS_Q
  const leaves = []
  let stats = { states: 0, transitions: 0 }
  for (const [stmts, ctxs, extraOps] of [[Array.from(ASYNC_STMTS), G.EXPRCTX_ASYNC.concat(['@@', 'h(@@)']), G_ASYNC_OPS], [Array.from(GEN_STMTS), G.EXPRCTX_GEN.concat(['@@', 'h(@@)']), G_GEN_OPS]]) {
    const r = enumerate([{ name: 'op', symbols: ops.concat(extraOps), free: true }, { name: 'stmtctx', symbols: stmts, free: true }, { name: 'exprctx', symbols: ctxs, free: true }, { name: 'scope', symbols: ['sloppy', 'strict_fn', 'module'], free: true }], {})
    stats = addStats(stats, r.stats)
    for (const l of r.leaves) leaves.push(mkLeaf('G', { op: l.pick.op.tpl, opkind: l.pick.op.kind, stmtctx: l.pick.stmtctx, exprctx: l.pick.exprctx, scope: l.pick.scope }))
  }
  return { leaves, stats }
}

// M: files made of a SEQUENCE of functions/blocks (the transform status, telemetry and prologue are
// state shared by the blocks of one file): all sequences up to length 3 over 10 function kinds
const M_FNS = {
  plus: (i) => `function f${i}(a, g, s) { return a + s }`,
  temps: (i) => `function f${i}(a, g, s) { return a + g() + g() }`,
  guard_nohook: (i) => `function f${i}(a, g, s) { return s?.prototype.trim() }`,
  guard_hook: (i) => `function f${i}(a, g, s) { return s?.trim() }`,
  notmod: (i) => `function f${i}(a, g, s) { return a * 2 }`,
  literal: (i) => `function f${i}(a, g, s) { return 'a' + 'b' }`,
  guard_then_inner: (i) => `function f${i}(a, g, s) { const t = s?.prototype.trim(); if (t) { return t + g() } return t }`,
  arrow_block: (i) => `const f${i} = (a, g, s) => { return a.concat(g(), s) }`,
  arrow_concise_top: (i) => `const f${i} = (a, g, s) => a + g()`,
  class_method: (i) => `class K${i} { m(a, g, s) { return \`\${a}\${g()}\` } } const f${i} = (a, g, s) => new K${i}().m(a, g, s)`,
  member_assign: (i) => `function f${i}(a, g, s) { const ob = { q: { p: 'p' } }; ob.q.p += g(); return ob.q.p }`
}
function familyM (tier, opts = {}) {
  const names = Object.keys(M_FNS)
  const L = opts.L || 3
  const dims = []
  for (let i = 0; i < L; i++) dims.push({ name: 'f' + i, symbols: [null].concat(names), free: true })
  dims.push({ name: 'strict', symbols: [false, true], free: true })
  const r = enumerate(dims, { valid: (cur, i) => !(i >= 1 && i < L && cur['f' + (i - 1)] === null && cur['f' + i] !== null) })
  const leaves = []
  for (const l of r.leaves) {
    const seq = []
    for (let i = 0; i < L; i++) if (l.pick['f' + i]) seq.push(l.pick['f' + i])
    if (!seq.length) continue
    const fns = seq.map((n, i) => M_FNS[n](i)).join('\n')
    const calls = seq.map((n, i) => `(() => { try { return f${i}(E.a, () => { E.ev('g'); return E.fv }, E.s) } catch (e) { return 'threw ' + e.name } })()`).join(', ')
    const code = `${l.pick.strict ? "'use strict';\n" : ''}${fns}\nfunction main(E) { return [${calls}] }`
    const leaf = mkLeaf('M', { op: seq.join('>'), opkind: 'file', scope: l.pick.strict ? 'strict_file' : 'sloppy' })
    leaf.code = code
    leaves.push(leaf)
  }
  return { leaves, stats: r.stats }
}

// S: sequences of statements inside ONE block (the temporary counter, the list of temporaries to declare
// and the identifier registry are state shared by the statements of a block): all sequences up to length 3
const S_STMTS = {
  plus_temps: 'x = a + f();',
  plus_plain: 'y = a + b;',
  tpl: 'x = `${a}${f()}`;',
  method: 'y = s.trim();',
  chain: 'y = s?.trim().length;',
  chain_nohook: 'y = o?.prototype.trim();',
  member_assign: 'o.q.p += f();',
  both_temps_assign: 'g()[k] += a;',
  literal_only: "y = 'l' + 'm';",
  nested_block: '{ x = x + g(1).concat(a); }',
  if_op: 'if (c) x = a + f(); else y = b + a;',
  arrow_op: 'y = ((q) => q + a)(b);',
  loop_op: 'for (const q of arr) x += q + f();',
  proto: 'y = X.prototype.concat.call(a, f(), b);',
  spread: 'y = a.concat(...arr, f());',
  unconfigured: 'y = a.toUpperCase();',
  // the init clause of a for statement may hold `in` only inside parentheses / brackets
  for_init_in_method: 'for (a.concat(k in o); c; c = false) y = 1;',
  for_init_in_tpl: 'for (`${k in o}${a}`; c; c = false) y = 2;',
  for_init_in_seq: 'for ((k in o, x = a + b); c; c = false) y = 3;',
  for_init_in_plus: 'for (x = (k in o) + a; c; c = false) y = 4;',
  if_seq_test: 'if ((f(), a + b)) y = 5;',
  // a string statement that is NOT part of the directive prologue
  stray_use_strict: "'use strict';",
  stray_string: "'marker';"
}
function familyS (tier, opts = {}) {
  const names = Object.keys(S_STMTS)
  const L = opts.L || 3
  const dims = []
  for (let i = 0; i < L; i++) dims.push({ name: 's' + i, symbols: [null].concat(names), free: true })
  dims.push({ name: 'where', symbols: tier === 'thorough' ? ['fnbody', 'block', 'strict'] : ['fnbody', 'block'], free: true })
  const r = enumerate(dims, { k: 0, valid: (cur, i) => !(i >= 1 && i < L && cur['s' + (i - 1)] === null && cur['s' + i] !== null) })
  const leaves = []
  for (const l of r.leaves) {
    const seq = []
    for (let i = 0; i < L; i++) if (l.pick['s' + i]) seq.push(l.pick['s' + i])
    if (!seq.length) continue
    const body = seq.map((n) => S_STMTS[n]).join(' ')
    const leaf = mkLeaf('S', { op: seq.join('>') + (l.pick.where === 'fnbody' ? '' : '@' + l.pick.where), opkind: 'stmts', scope: l.pick.where === 'strict' ? 'strict_fn' : 'sloppy' })
    leaf.code = G.SCOPES[leaf.scope](l.pick.where === 'block' ? `{ ${body} } return [x, y]` : `${body} return [x, y]`)
    leaves.push(leaf)
  }
  return { leaves, stats: r.stats }
}

// T: how MANY temporaries a block needs. Two statements, each with n operands that need a temporary, for every
// pair (n1, n2): the number of injected names crosses 10 (two-digit suffixes) and, in the thorough tier, 100
const T_KINDS = {
  plus: (n) => Array.from({ length: n }, (_, i) => `o.m${i}()`).join(' + '),
  args: (n) => 'a.concat(' + Array.from({ length: n }, (_, i) => `o.m${i}()`).join(', ') + ')',
  tpl: (n) => '`' + Array.from({ length: n }, (_, i) => '${o.m' + i + '()}').join('|') + '`'
}
function familyT (tier, opts = {}) {
  const ns = tier === 'thorough' ? [1, 2, 3, 4, 5, 6, 7, 8, 9, 10, 11, 12, 13, 52, 60, 130] : [1, 2, 4, 5, 6, 7, 8, 9]
  const r = enumerate([{ name: 'k1', symbols: Object.keys(T_KINDS), free: true }, { name: 'n1', symbols: ns, free: true }, { name: 'k2', symbols: Object.keys(T_KINDS), free: true }, { name: 'n2', symbols: ns, free: true }, { name: 'where', symbols: ['fnbody', 'block'], free: true }], {})
  const leaves = []
  for (const l of r.leaves) {
    const p = l.pick
    const body = `x = ${T_KINDS[p.k1](p.n1)}; y = ${T_KINDS[p.k2](p.n2)};`
    const leaf = mkLeaf('T', { op: `${p.k1}${p.n1}>${p.k2}${p.n2}>${p.where}`, opkind: 'stmts' })
    leaf.code = G.SCOPES.sloppy(p.where === 'block' ? `{ ${body} } return [x, y]` : `${body} return [x, y]`)
    leaves.push(leaf)
  }
  // every count of temporaries from 1 to 70 in one statement (whatever size a declaration, a buffer or a group
  // may be given, its boundary is crossed), in sloppy and in strict code
  for (const kind of Object.keys(T_KINDS)) for (let n = 1; n <= 70; n++) for (const scope of ['sloppy', 'strict_fn', 'module']) {
    if (tier !== 'thorough' && kind !== 'tpl' && n % 8 > 1) continue
    r.stats.states++; r.stats.transitions++
    const leaf = mkLeaf('T', { op: `${kind}${n}>count>${scope}`, opkind: 'stmts', scope })
    leaf.code = G.SCOPES[scope](`x = ${T_KINDS[kind](n)}; return x`)
    leaves.push(leaf)
  }
  return { leaves, stats: r.stats }
}

// ---- generated operation families (bounded-exhaustive grammars instead of hand-written lists) ------------
// H: member/call chains. chain := base link{1..L}; every link plain or optional; the prefix before any link may be
// closed by parentheses (short-circuiting stops there). Only chains holding a configured method are kept.
const H_LINKS = {
  prop: (q) => q + 'q', trim: (q) => q + 'trim()', concat: (q) => q + 'concat(a)', key: (q) => (q === '.' ? '' : q) + '[k]',
  call: (q) => (q === '.' ? '' : q) + '(b)', method: (q) => q + 'm(b)', length: (q) => q + 'length',
  // a computed key that holds an optional chain of its own
  chainkey: (q) => (q === '.' ? '' : q) + '[o?.p]'
}
function familyH (tier, opts = {}) {
  const L = opts.L || (tier === 'thorough' ? 4 : 3)
  const bases = tier === 'thorough' ? ['s', 'o', 'g()'] : ['s', 'o']
  const kinds = Object.keys(H_LINKS)
  const leaves = []
  const stats = { states: 1, transitions: 0 }
  const rec = (text, n, hasCsi, closed) => {
    stats.states++
    if (n > 0 && hasCsi) leaves.push(mkLeaf('H', { op: text, opkind: 'chain' }))
    if (n === L) return
    for (const k of kinds) {
      for (const q of ['.', '?.']) {
        stats.transitions++
        rec(text + H_LINKS[k](q), n + 1, hasCsi || k === 'trim' || k === 'concat', closed)
        // close what is there so far in parentheses, once, if it already holds an optional link
        if (!closed && n > 0 && text.includes('?.')) { stats.transitions++; rec('(' + text + ')' + H_LINKS[k](q), n + 1, hasCsi || k === 'trim' || k === 'concat', true) }
      }
    }
  }
  for (const b of bases) rec(b, 0, false, false)
  // chains hanging from `this` (nothing has to be copied to read it again): one link shorter than the other bases
  rec('this', 1, false, false)
  return { leaves, stats }
}

// Q: Function.prototype forms. <holder>.<method>.<call|apply>(args), args = every sequence of <= N argument forms
const Q_ARGS = ['a', "'lit'", 'f()', '...arr', '[b, f()]', '[]', 'undefined', 'null', '[...arr, b]', 's.trim()', 'a + f()']
function familyQ (tier, opts = {}) {
  const N = tier === 'thorough' ? 3 : 2
  // (a holder that is a logged spy, `o.concat`, is left out: reading a static path after the this argument is the
  // stated exemption of C01 and a logging spy would report it)
  const holders = tier === 'thorough' ? ['X.prototype', 'String.prototype', 'g()', 'X[g()]', "X['prototype']", 'g().q[k]'] : ['X.prototype', 'g()', 'X[g()]', "X['prototype']"]
  const leaves = []
  const stats = { states: 1, transitions: 0 }
  const dims = [{ name: 'holder', symbols: holders, free: true }, { name: 'method', symbols: ['concat', 'trim'], free: true }, { name: 'fn', symbols: ['call', 'apply'], free: true }]
  for (let i = 0; i < N; i++) dims.push({ name: 'a' + i, symbols: [null].concat(Q_ARGS), free: true })
  // quick: a third argument taken from a short list, after every pair
  if (tier !== 'thorough') dims.push({ name: 'a2', symbols: [null, 'f()', 'a'], free: true })
  const last = dims.length - 3
  const r = enumerate(dims, { valid: (cur, i) => { const j = i - 3; return !(j >= 1 && cur['a' + (j - 1)] === null && cur['a' + j] !== null) } })
  for (const l of r.leaves) {
    const args = []
    for (let i = 0; i < last; i++) if (l.pick['a' + i] !== null && l.pick['a' + i] !== undefined) args.push(l.pick['a' + i])
    const op = `${l.pick.holder}.${l.pick.method}.${l.pick.fn}(${args.join(', ')})`
    leaves.push(mkLeaf('Q', { op, opkind: 'proto' }))
    // with an argument that is itself instrumented: also in the positions where the call is the ROOT of its statement
    if (args.some((x) => x === 's.trim()' || x === 'a + f()')) for (const st of ['stmt', 'return', 'const', 'if_test']) leaves.push(mkLeaf('Q', { op, opkind: 'proto', stmtctx: st }))
  }
  // generated holder paths: base link{0..2} over bases that run code or not and links that are static or not
  // (whether the path may be read after the this argument is decided link by link AND by its base); each with a
  // this argument and a first argument that log
  // (paths that are static all the way down to an identifier are the stated exemption: when reading one throws,
  // the this argument has or has not been evaluated yet, which is exactly the order the exemption leaves open -
  // those are covered by the holders above, whose reads succeed)
  // (a parenthesised name, `(o)`, is a static base as well)
  const bases = ['g()', 'new X', '(0, o)', 'o?.q', '(c ? o : X)']
  const links = tier === 'thorough' ? ['.prototype', '.q', '[k]', '[0]', '[g()]', "['q']"] : ['.q', '[k]', '[0]', '[g()]']
  const paths = []
  for (const b of bases) { paths.push(b); for (const l0 of links) { paths.push(b + l0); for (const l1 of links) paths.push(b + l0 + l1) } }
  for (const h of paths) for (const fn of ['call', 'apply']) for (const args of (tier === 'thorough' ? ['f(), a', 'f(), h()', 's.trim(), a', 'a, f()'] : ['f(), a'])) {
    stats.states++; stats.transitions++
    const al = fn === 'apply' ? args.replace(/, (.*)$/, ', [$1]') : args
    leaves.push(mkLeaf('Q', { op: `${h}.concat.${fn}(${al})`, opkind: 'proto' }))
  }
  return { leaves, stats: addStats(stats, r.stats) }
}

// R: `+=` targets. target := base access{0..2}, wrapped in 0..2 pairs of parentheses, x right-hand sides
const R_BASES = { x: 'x', o: 'o', call: 'g()', this: 'this', args: 'arguments', sup: 'super' }
const R_ACCESS = ['.p', '[k]', '[f()]', '[i++]', '.q', "['p']", '[(f(), k)]', '[a + b]', '[s.trim()]']
function familyR (tier, opts = {}) {
  const leaves = []
  const stats = { states: 1, transitions: 0 }
  // right-hand sides include every form that binds looser than `+` (they become an operand of the synthesised `T + R`)
  const rhs = opts.rhs ? opts.rhs : tier === 'thorough' ? ['b', 'f()', "'lit'", 'a + b', '`${a}`', 'q => q', 'async q => q', 'c ? a : b', 'y = b', 'y ||= b', 'function () {}', 'class {}', 'a ?? b', 'a || b'] : ['b', 'f()', 'a + b', 'q => q', 'c ? a : b', 'y = b']
  const targets = []
  for (const [bn, b] of Object.entries(R_BASES)) {
    if (bn === 'x') targets.push([bn, b])
    for (const a1 of R_ACCESS) {
      if (a1 === '.q') continue
      targets.push([bn, b + a1])
      for (const a0 of ['.q', '[k]', '[f()]', '[a + b]', '[`${a}`]']) if (bn !== 'sup' && bn !== 'args') targets.push([bn, b + a0 + a1])
    }
  }
  for (const [bn, t] of targets) {
    for (const depth of [0, 1, 2]) {
      for (const r of rhs) {
        stats.states++; stats.transitions++
        const target = '('.repeat(depth) + t + ')'.repeat(depth)
        let op = `${target} += ${r}`
        if (bn === 'sup') op = `new (class extends X { m() { return ${op} } })().m()`
        else if (bn === 'args') op = `(function () { return ${op} })(a, b)`
        leaves.push(mkLeaf('R', { op, opkind: 'assign' }))
      }
    }
  }
  return { leaves, stats }
}

// N: `+` chains. Every sequence of 2..n operands over an operand alphabet, left-nested and right-nested, and as the
// right side of `+=`
const N_OPERANDS = ['a', "'l'", '`t`', '1', 'f()', 'o.p', '-a', 'a * 2', 'i++', "('m' + 'n')", '(b + f())', 'null', '`t${b}`', 'undefined', '`${1}${f()}`']
function familyN (tier, opts = {}) {
  const n = tier === 'thorough' ? 4 : 3
  const leaves = []
  const stats = { states: 1, transitions: 0 }
  const rec = (ops) => {
    stats.states++
    if (ops.length >= 2) {
      const left = ops.join(' + ')
      const right = ops.slice(0, -1).reduceRight((acc, o) => `${o} + (${acc})`, ops[ops.length - 1])
      for (const op of ops.length > 2 ? [left, right, 'x += ' + left] : [left, 'x += ' + left]) leaves.push(mkLeaf('N', { op, opkind: 'plus' }))
    }
    if (ops.length === n) return
    for (const o of N_OPERANDS) { stats.transitions++; rec(ops.concat([o])) }
  }
  rec([])
  // constant chains of every length from 2 to 40 terms (left- and right-nested) as an operand of each operation:
  // whatever bound a walk over such a chain may be given, it is crossed
  for (let len = 2; len <= 40; len++) {
    if (tier !== 'thorough' && len > 20 && len % 4) continue
    const terms = Array.from({ length: len }, (_, i) => `'s${i}'`)
    const left = terms.join(' + ')
    const right = terms.slice(0, -1).reduceRight((acc, o) => `${o} + (${acc})`, terms[len - 1])
    for (const [cn, chain] of [['L', left], ['R', right]]) for (const op of [`${chain} + a`, `a + (${chain})`, `a.concat(${chain}, b)`, '`${a}:${' + chain + '}`', `x += ${chain}`, `h(${chain}) + a`]) {
      if (cn === 'R' && tier !== 'thorough' && len % 2) continue
      stats.states++; stats.transitions++
      leaves.push(mkLeaf('N', { op, opkind: 'plus' }))
    }
  }
  return { leaves, stats }
}

// L: template literals. Every sequence of 1..n substitutions over a substitution alphabet x quasi texts x tagged or not
const L_SUBST = ['a', "'l'", '`t`', "`t` + 'l'", '1', 'f()', 'a + b', '`${b}`', 's?.trim()', 'null', "'l' + 'm'"]
const L_QUASIS = { empty: () => '', text: (i) => 'q' + i, newline: () => '\n', escaped: () => '\\n\\u00f1\\`' }
function familyL (tier, opts = {}) {
  const n = tier === 'thorough' ? 4 : 3
  const leaves = []
  const stats = { states: 1, transitions: 0 }
  const rec = (subs) => {
    stats.states++
    if (subs.length >= 1) {
      for (const [qn, q] of Object.entries(L_QUASIS)) {
        if (tier !== 'thorough' && qn !== 'empty' && qn !== 'text' && subs.length > 2) continue
        let t = '`' + q(0)
        subs.forEach((sx, i) => { t += '${' + sx + '}' + q(i + 1) })
        t += '`'
        leaves.push(mkLeaf('L', { op: t, opkind: 'tpl' }))
        if (qn === 'text' && subs.length <= 2) { leaves.push(mkLeaf('L', { op: 'h' + t, opkind: 'tpl' })); leaves.push(mkLeaf('L', { op: t + '.length', opkind: 'tpl' })); leaves.push(mkLeaf('L', { op: t + '.concat(a)', opkind: 'tpl' })) }
      }
    }
    if (subs.length === n) return
    for (const sx of L_SUBST) { stats.transitions++; rec(subs.concat([sx])) }
  }
  rec([])
  return { leaves, stats }
}

// P: operations whose operands are `+` expressions, under configurations with the plus operator DISABLED
// (the operand is then not turned into a hook call by the child-first traversal)
function familyP (tier, opts = {}) {
  const atoms = ['a + b', "a + 'x'", 'f() + b', "'l' + 'm'", 'a']
  const leaves = []
  let stats = { states: 0, transitions: 0 }
  const extra = [{ kind: 'method', tpl: 'a.concat(b + f(), a)', slots: [] }, { kind: 'method', tpl: 'a.concat(a + f(), b, a)', slots: [] }, { kind: 'tpl', tpl: '`${b + f()}${a}`', slots: [] }, { kind: 'bare', tpl: 'aloneMethod(b + f(), a)', slots: [] }]
  for (const sc of G.SCHEMAS.filter((x) => ['tpl', 'method', 'proto', 'bare', 'chain'].includes(x.kind) && x.slots.length && !x.surplus).concat(extra)) {
    const r = enumerate(sc.slots.map((s) => ({ name: s, symbols: s === 'S' ? ['arr'] : atoms, free: true })).concat([{ name: 'config', symbols: ['METHODS_ONLY', 'TPL_ONLY', 'FULL'], free: true }]), {})
    stats = addStats(stats, r.stats)
    for (const l of r.leaves) leaves.push(mkLeaf('P', Object.assign({ op: sc.tpl, opkind: sc.kind }, l.pick)))
  }
  return { leaves, stats }
}

// K: operations placed BARE (no parentheses of their own) in positions whose grammar takes only a narrow class of
// expressions, or where a neighbouring operator binds tighter or looser than what replaces the operation: the
// replacement has to bring exactly the parentheses that keep the parse the same
const K_OPS = ['s.trim()', 's?.trim()', 'o?.p.concat(b)', 'g?.(a).trim()', 'o.q?.(a).concat(b)', 'o?.p?.concat(b)', 'o?.[k].trim()', '`${a}${f()}`', 'X.prototype.concat.call(a, f())', 'aloneMethod(a)',
  'g().concat(f())', 'new X().concat(a)', 'a + f()', 'o.p += f()', 'o?.p.concat(b) + a', 'o?.p + f()', 'x += f()']
const K_CTX = ['a ?? @@', '@@ ?? a', 'a ?? @@ ?? b', 'a || @@', '@@ || a', 'a && @@', '@@ && a', 'new @@', 'new @@()', '@@`t`', '@@ ** 2', '2 ** @@', '-@@', '+@@', '~@@', 'typeof @@', 'void @@', 'delete @@', '@@.p', '@@[0]', '@@()',
  '@@?.p', '@@?.()', 'a ? @@ : b', '@@ ? a : b', 'a ? b : @@', 'a, @@', '@@, a', 'y = @@', 'y ??= @@', 'y ||= @@', '@@ in o', 'k in @@', '@@ instanceof X', 'a < @@', '@@ < a', 'a == @@', 'a + @@', '@@ + a', 'a - @@', '@@ - a', 'a * @@', '!@@',
  'q => @@', '[@@]', '[...@@]', 'h(...@@)', '({p: @@})', '({...@@})', '`${@@}`', 'o[@@]', 'o?.[@@]', 'g?.(@@)', 'o?.q(@@)', 'y = m = @@', '@@ ? @@ : @@', 'a ?? @@ + b', 'i | @@', 'i ^ @@ & i', 'class extends @@ {}', 'a ?? @@ ?? @@', '@@ || @@ && @@']
function familyK (tier, opts = {}) {
  const leaves = []
  const stats = { states: 1, transitions: 0 }
  const ops = tier === 'thorough' ? K_OPS : K_OPS.slice(0, 12)
  for (const ctx of K_CTX) for (const op of ops) for (const config of (tier === 'thorough' ? ['FULL', 'METHODS_ONLY', 'PLUS_ONLY'] : ['FULL'])) {
    stats.states++; stats.transitions++
    leaves.push(mkLeaf('K', { op, opkind: 'tight', exprctx: ctx, config }))
  }
  return { leaves, stats }
}

// LEXICAL: literal tokens whose spelling matters (escapes that stand for a delimiter, a backslash or `${`, next to
// ASCII / non-ASCII / astral text), generated as prefix x escape x suffix per literal kind; the printer re-spells
// literals, and a re-spelling that decodes an escape ends the literal early
function lexicalTokens (tier) {
  const out = []
  const pre = ['', 'é', '😀', 'é\u200d']
  const tplEsc = ['\\x60', '\\u0060', '\\u{60}', '\\`', '\\x5c', '\\\\', '\\x24{', '\\${', '$\\{', '\\x0a', '\\r', '\\0', '\\xe9', '\\u00e9', '\\u{1F600}', '\\\n', '\r\n', '$', '\\x7b']
  for (const p of pre) for (const e of tplEsc) for (const suf of ['', 'z', '${a}', '${a}\\x60']) out.push('`' + p + e + suf + '`')
  const strEsc = ['\\x27', '\\x22', "\\'", '\\"', '\\x5c', '\\\\', '\\x0a', '\\u2028', '\u2028', '\u2029', '\\0', '\\xe9', '\\u{1F600}', '\\\n', '\\x0d', '</script>', '\\u00e9']
  for (const q of ["'", '"']) for (const p of pre) for (const e of strEsc) for (const suf of ['', 'z']) out.push(q + p + e + suf + q)
  const reEsc = ['\\/', '[/]', '\\x2f', '\\u002f', '\\\\', '[\\]]', '\\x5c', '(?<n>a)\\k<n>', '\\p{L}', '[^]']
  for (const p of pre) for (const e of reEsc) for (const fl of ['', 'g', 'u', 'v']) { if ((fl === 'u' || fl === 'v') && e === '\\x5c') continue; out.push('/' + p + e + '/' + fl) }
  for (const n of ['0b101', '0o17', '1_000', '.5e-3', '0x1Fn', '1e21', '0.0000001', '5..toString()', '1.e3', '0xFFFFFFFFFFFFFFFFn', '-0', '017', '09.5']) out.push(n)
  for (const id of ['\\u0061bc', 'ñu', '\\u{62}c', 'a\u200d', 'ℓ', '$\\u0024', 'l\\u0065t']) out.push(id)
  return tier === 'thorough' ? out : out.filter((_, i) => i % 1 === 0)
}
const LEX_PLACES = ['function f(a, b, abc, bc, ñu, ℓ) { const u = @@; return a + b }', 'function f(a, b, abc, bc, ñu, ℓ) { return a + @@ }', 'function f(a, b, abc, bc, ñu, ℓ) { return `${@@}${a}`.concat(@@) }', 'function f(a, b, abc, bc, ñu, ℓ) { "use strict"; return h(@@) + a }']

function all (tier, opts = {}) {
  let leaves = []
  let stats = { states: 1, transitions: 0 }
  const fams = { A: familyA, B: familyB, C: familyC, G: familyG, M: familyM, S: familyS, P: familyP, T: familyT, H: familyH, Q: familyQ, R: familyR, N: familyN, L: familyL, K: familyK }
  // (VERIF_ONLY_FAMILIES=NL… restricts a run to some families: an aid for re-judging one family after a change)
  const only = process.env.VERIF_ONLY_FAMILIES
  for (const f of (opts.families || ['A', 'B', 'C', 'G']).filter((x) => !only || only.includes(x))) {
    const r = fams[f](tier, opts[f] || {})
    leaves = leaves.concat(r.leaves)
    stats = addStats(stats, r.stats)
  }
  // distinct programs only (different derivations may render the same text)
  const seen = new Set()
  const uniq = []
  for (const l of leaves) { if (!seen.has(l.key)) { seen.add(l.key); uniq.push(l) } }
  return { leaves: uniq, stats }
}

module.exports = { lexicalTokens, LEX_PLACES, familyK, familyN, familyL, familyH, familyQ, familyR, familyT, familyP, familyA, familyB, familyC, familyG, familyM, familyS, M_FNS, S_STMTS, all, REP_OPS, REP_OPS_Q, CONFIGS, mkLeaf }
