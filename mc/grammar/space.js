'use strict'
// Grammar G (DESIGN §2): programs are assembled from dimension groups; every entry is a string with
// typed holes, so a derivation is a sequence of hole fillings (the transitions of the search).
//   operation schema (holes X Y Z) x operand atoms x expression context (hole @@) x statement
//   context (hole @E@) x scope kind x configuration.
const { enumerate, addStats } = require('../lib/explore')

// ---- G1 operand atoms (simplest first) ---------------------------------------------------------
// the second line wraps the effectful call f() (which may reassign `a`) in every expression kind that
// might be mistaken for something inert: array / object / template literal, conditional, new, unary, key
const ATOMS_Q = ["'lit'", '7', 'a', 'f()', 'o.p', 'o[k]', 'i++', '(a = E.a2)', 'g(1)', '1 + 2', 'a - 1', '2 * 3',
  '[f()]', '({p: f()})', '`${f()}`', '(c ? f() : b)', 'new X(f())', '-f()', 'o[f()]']
const ATOMS_T = ATOMS_Q.concat(['this.q', '(c ? a : b)', '(a, b)', '[a, b]', '`t`', 'null', 'undefined', 'function(){return a}', '() => a', 'new X(a)', '-a', 'typeof a', 'o?.p', 's?.trim()', 'a * 2', "'l' + 'm'", '1 << 2', 'a || b', 'o.q.p', 'h(f(), a)', "'l' + undefined"])

// ---- G2 operation schemas ------------------------------------------------------------------------
// kind: used by drivers to pick representative subsets. slots: which holes exist.
function S (kind, tpl, extra) { return Object.assign({ kind, tpl, slots: ['X', 'Y', 'Z', 'S'].filter((s) => tpl.includes('@' + s + '@')) }, extra || {}) }
const SCHEMAS = [
  S('plus', '@X@ + @Y@'),
  S('plus', '@X@ + @Y@ + @Z@'),
  S('plus', '@X@ + (@Y@ + @Z@)'),
  S('plus', '@X@ + @Y@ * @Z@'),
  S('plus', "'l' + 'm' + @Z@"),
  S('plus', "@Z@ + 'l' + 'm'"),
  S('plus', '1 + 2'),
  S('ctl', '@X@ - @Y@'),
  S('assign', 'x += @Y@'),
  S('assign', 'o.p += @Y@'),
  S('assign', 'o[k] += @Y@'),
  S('assign', 'this.q += @Y@'),
  S('assign', 'o.q.p += @Y@'),
  S('assign', 'g().p += @Y@'),
  S('assign', 'arr[i++] += @Y@'),
  S('assign', 'o[f()] += @Y@'),
  S('assign', 'g()[f()] += @Y@'),
  S('assign', 'o[a, k] += @Y@'),
  S('assign', 'o[(f(), k)] += @Y@'),
  S('assign', 'o[(o = E.o2, k)] += @Y@'),
  S('assign', 'o.q[i++] += @Y@'),
  S('assign', 'g(1).q[h(k)] += @Y@'),
  S('assign', '(x) += @Y@'),
  S('assign', '(o.p) += @Y@'),
  S('ctl', 'x -= @Y@'),
  S('plus', 'x = x + @Y@'),
  S('tpl', '`${@X@}`'),
  S('tpl', '`p${@X@}q${@Y@}r`'),
  S('tpl', '`${1}${@X@}`'),
  S('tpl', 'h`p${@X@}`'),
  S('tpl', '`${@X@}${`${@Y@}`}`'),
  S('tpl', 'o.tag`p${@X@}`'),
  S('tpl', 'String.raw`p\\n${@X@}`'),
  S('method', 'new o.q.concat(@X@)'),
  S('method', 'new (a.concat(@X@).constructor)(@Y@)'),
  S('tpl', '`l1\n${@X@}\nl3`'),
  S('tpl', '`${a, @X@}`'),
  S('tpl', '`${@X@}${a, b}`'),
  S('method', 'o[a, k].concat(@X@)'),
  S('method', 'a.concat((b, @X@))'),
  // method calls R.m(A...)
  S('method', 'a.trim()'),
  S('method', 'a.concat(@X@)'),
  S('method', 'a.concat(@X@, @Y@)'),
  S('method', 'a.substring(@X@)'),
  S('method', 'a.toUpperCase(@X@)'),
  S('method', 'a.concat(...arr)'),
  S('method', 'a.concat(@X@, ...arr, @Y@)'),
  S('method', 'a.concat(@X@, function (m, p = f()) { return p })'),
  S('method', 'a.concat(@X@, h(function (p = b + f()) { return p })())'),
  S('plus', '@X@ + h(function (p = b + f()) { return p })()'),
  S('plus', '@X@ + ({ m(p = `${b}${f()}`) { return p } }).m()'),
  S('chain', 's?.trim?.().trim()'),
  S('chain', 'o?.q.trim?.().concat(@X@)'),
  S('chain', 's?.trim?.()?.trim()'),
  S('method', 'a.concat(...@S@)'),
  S('method', 'a.concat(@X@, ...@S@)'),
  S('proto', 'X.prototype.concat.call(a, ...@S@)'),
  S('proto', 'X.prototype.concat.apply(a, [...@S@, @X@])'),
  S('proto', 'X.prototype.concat.call(...@S@)'),
  S('bare', 'aloneMethod(...@S@)'),
  S('method', 'o.q.trim()'),
  S('method', 'o.q.concat(@X@)'),
  S('method', 'o[k].concat(@X@)'),
  S('method', 'g().concat(@X@)'),
  S('method', '(a || b).concat(@X@)'),
  S('method', '[a, b].concat(@X@)'),
  S('method', "'lit'.concat(@X@)"),
  S('method', "'lit'.trim()"),
  S('method', "'lit'.concat('x')"),
  S('method', 'this.concat(@X@)'),
  S('method', 'new X().concat(@X@)'),
  S('method', 'o.prototype.concat(@X@)'),
  S('method', 'o.prototype.q.concat(@X@)'),
  S('method', "a['concat'](@X@)"),
  S('method', 'a[m](@X@)'),
  S('method', 'a.concat?.(@X@)'),
  S('method', '@X@.concat(@Y@)'),
  // optional chains
  S('chain', 's?.trim()'),
  S('chain', 'o?.q.trim()'),
  S('chain', 'o.q?.trim()'),
  S('chain', 'o?.[k].trim()'),
  S('chain', 'g?.().trim()'),
  S('chain', 's?.trim().length'),
  S('chain', 'o?.q.concat(@X@).length?.q'),
  S('chain', 'o?.q.concat(@X@).r?.concat(@Y@)'),
  S('chain', 's?.concat(a?.trim())'),
  S('chain', 'o?.[s?.trim()].trim()'),
  S('chain', '(o?.q).trim()'),
  S('chain', 'o?.prototype.trim()'),
  S('chain', 'o?.q'),
  S('chain', '@X@?.trim()'),
  S('chain', 'o?.q.concat(@X@)'),
  S('chain', 's?.trim?.()'),
  S('chain', 'o.q?.trim().length'),
  S('chain', 'o?.nil?.trim()'),
  S('chain', 's?.trim()?.concat(@X@)'),
  // X.prototype.m.call / apply
  S('proto', 'X.prototype.concat.call(a, @X@)'),
  S('proto', 'X.prototype.concat.call(@X@, @Y@)'),
  S('proto', 'X.prototype.concat.apply(a, [@X@])'),
  S('proto', 'X.prototype.concat.apply(a, [@X@, @Y@])'),
  S('proto', 'X.prototype.concat.apply(a, [...arr, @X@])'),
  S('proto', 'X.prototype.concat.apply(a, arr)'),
  S('proto', 'X.prototype.concat.apply(a)'),
  S('proto', 'X.prototype.concat.call()'),
  S('proto', 'X.prototype.concat.call(...arr, @X@)'),
  S('proto', "X.prototype.concat.call('lit', @X@)"),
  S('proto', "X.prototype.concat.call('lit')"),
  S('proto', "X.prototype.concat.call('lit', 'x')"),
  S('proto', "X.prototype.concat.apply('lit', ['l', @X@])"),
  S('proto', "X.prototype.trim.call('lit')"),
  S('proto', 'X.prototype.concat.apply(a, [, @X@])'),
  S('proto', "X.prototype.concat.call('lit', undefined)"),
  S('proto', "X.prototype.concat.call('lit', null, @X@)"),
  S('proto', "X.prototype.concat.apply('lit', [undefined, @X@])"),
  S('proto', 'X.prototype.concat.apply(a, [[b, f()], @X@])'),
  S('proto', 'X.prototype.concat.call(a, @X@).concat(@Y@)'),
  S('proto', 'o.concat.call(a, @X@)'),
  S('proto', 'g().concat.call(a, @X@)'),
  S('proto', 'String.prototype.concat.call(a, @X@)'),
  S('proto', 'String.prototype.substring.apply(a, [1, @X@])'),
  // bare calls
  S('bare', 'aloneMethod(@X@)'),
  S('bare', 'cantAloneMethod(@X@)'),
  S('bare', 'o.aloneMethod(@X@)'),
  S('bare', 'aloneMethod(@X@, ...arr)'),
  // long tail of assignment targets and operand forms (each carries the class it needs)
  S('assign', '(o[f()]) += @Y@'),
  S('assign', '(g().p) += @Y@'),
  S('assign', '((o.q[i++])) += @Y@'),
  S('assign', 'new (class extends X { m() { return super.p += @Y@ } })().m()'),
  S('assign', 'new (class extends X { m() { return super[k] += @Y@ } })().m()'),
  S('assign', 'new (class extends X { m() { return super[f()] += @Y@ } })().m()'),
  S('assign', 'new (class extends X { m() { return super[i++] += @Y@ } })().m()'),
  S('assign', 'new (class { #q = a; m() { return this.#q += @Y@ } })().m()'),
  S('assign', 'new (class { #q = o; m() { return this.#q.p += @Y@ } })().m()'),
  S('assign', 'new (class { #q = o; m() { return g(this).#q[f()] += @Y@ } })().m()'),
  S('assign', '(function () { return arguments[0] += @Y@ })(a)'),
  S('assign', '(function () { return arguments[i++] += @Y@ })(a)'),
  S('plus', 'new (class extends X { m() { return super.p + @Y@ } })().m()'),
  S('method', 'new (class extends X { m() { return super.p.concat(@X@) } })().m()'),
  S('method', 'new (class extends X { concat() { return a } m() { return super.concat(@X@) } })().m()'),
  S('method', 'new (class { #q = a; m() { return this.#q.concat(@X@) } })().m()'),
  S('plus', 'x ||= @X@ + @Y@'),
  S('plus', 'o[f()] ??= @X@ + @Y@'),
  S('plus', 'i++ + @Y@'),
  S('plus', '@X@ + +@Y@'),
  S('plus', '@X@ + -@Y@'),
  // optional chains under delete (must stay references) and optional calls that carry arguments
  S('chain', 'delete s?.trim().p'),
  S('chain', 'delete (s?.trim().p)'),
  S('chain', 'delete (o?.q.concat(@X@).p)'),
  S('chain', 'delete ((o?.q.concat(@X@))).p'),
  S('chain', 'delete o[s?.trim()]'),
  S('chain', 'g?.(@X@).trim()'),
  S('chain', 'g?.(@X@, ...arr).concat(@Y@)'),
  S('chain', 'o?.m?.(f(), k).concat(@X@)'),
  S('chain', '(g())?.(@X@).trim()'),
  S('chain', 'o.m?.(@X@).trim()'),
  S('chain', 'o?.[k]?.(@X@)?.trim()'),
  S('chain', 'new X(@X@)?.q.trim()'),
  // a chain closed by parentheses inside a longer expression: short-circuiting stops at the parenthesis
  S('chain', '(s?.trim()).length'),
  S('chain', '(o?.q.trim()).length?.p'),
  S('chain', '(o?.q.concat(@X@)).r?.concat(@Y@)'),
  S('chain', '(s?.trim())?.length'),
  S('chain', '(o?.q).trim()'),
  S('chain', '((o?.q.trim())).concat(@X@)?.p'),
  S('chain', '(o?.q.trim().r)?.concat(@X@)'),
  // prototype calls with the receiver only
  S('proto', 'X.prototype.trim.call(@X@)'),
  S('proto', 'String.prototype.trim.call(@X@)'),
  S('proto', 'X.prototype.concat.call(@X@)'),
  S('proto', 'X.prototype.trim.apply(@X@)'),
  S('proto', 'X.prototype.trim.apply(@X@, [])'),
  S('proto', 'X.prototype.trim.call(@X@, @Y@)'),
  // string-literal receivers of every method that accepts them (and of some that do not), constant templates
  S('method', "'lit'.concat(@X@)"),
  S('method', "'lit'.concat(@X@, @Y@)"),
  S('proto', "String.prototype.concat.call('lit', @X@)"),
  S('method', "'lit'.replace(@X@)"),
  S('method', "'lit'.replace(@X@, @Y@)"),
  S('proto', "String.prototype.replace.call('lit', @X@)"),
  S('method', "'lit'.replaceAll(@X@)"),
  S('method', "'lit'.replaceAll(@X@, @Y@)"),
  S('proto', "String.prototype.replaceAll.call('lit', @X@)"),
  S('method', "'lit'.padEnd(@X@)"),
  S('method', "'lit'.padEnd(@X@, @Y@)"),
  S('proto', "String.prototype.padEnd.call('lit', @X@)"),
  S('method', "'lit'.padStart(@X@)"),
  S('method', "'lit'.padStart(@X@, @Y@)"),
  S('proto', "String.prototype.padStart.call('lit', @X@)"),
  S('method', "'lit'.repeat(@X@)"),
  S('method', "'lit'.repeat(@X@, @Y@)"),
  S('proto', "String.prototype.repeat.call('lit', @X@)"),
  S('method', "'lit'.trim(@X@)"),
  S('method', "'lit'.trim(@X@, @Y@)"),
  S('proto', "String.prototype.trim.call('lit', @X@)"),
  S('method', "'lit'.substring(@X@)"),
  S('method', "'lit'.substring(@X@, @Y@)"),
  S('proto', "String.prototype.substring.call('lit', @X@)"),
  S('method', "'lit'.slice(@X@)"),
  S('method', "'lit'.slice(@X@, @Y@)"),
  S('proto', "String.prototype.slice.call('lit', @X@)"),
  S('method', "'lit'.replace('l', 'm')"),
  S('method', '`t`.concat(@X@)'),
  S('plus', '`t` + `u` + @X@'),
  S('plus', "'l' + `t` + @X@"),
  S('method', "a.concat(`t` + 'l', @X@)"),
  S('tpl', '`${`t` + `u`}${@X@}`'),
  // direct eval of code that reads and declares names of the calling scope
  S('bare', "eval('a + b')"),
  S('bare', "eval('var ev1 = a; ev1 + ' + @X@ + ')", { tail: true }),
  S('bare', 'eval(@X@)'),
  // more arguments than the form needs: they are still evaluated
  S('proto', 'X.prototype.concat.apply(a, [@X@], @Y@)', { surplus: true }),
  S('proto', 'X.prototype.concat.apply(a, arr, f(), @X@)', { surplus: true }),
  S('proto', 'X.prototype.concat.apply(@X@, @Y@, @Z@)', { surplus: true }),
  S('proto', 'X.prototype.trim.apply(a, [], @X@)', { surplus: true })
]

// schemas after the original list are the long tail added by the seeding rounds: in the quick tier they are nested
// (family C) as OUTER operations only
{ const core = SCHEMAS.findIndex((x) => x.tpl === 'aloneMethod(@X@, ...arr)'); SCHEMAS.forEach((x, i) => { if (i > core) x.tail = true }) }

// ---- G3 expression contexts ------------------------------------------------------------------------
const EXPRCTX = [
  '@@', 'h(@@)', 'h(a, @@)', '[@@]', '({p: @@})', '({[@@]: 1})', '(@@) ? a : b', 'c ? @@ : b', 'c ? a : @@', '(@@) || a', 'a && (@@)', 'a ?? (@@)',
  '!(@@)', '!@@', 'typeof (@@)', 'typeof @@', '-(@@)', 'void (@@)', 'delete o[@@]', '(@@).length', '(@@)()', 'new (@@)', '`${@@}`', 'h`${@@}`', '[...(@@)]', 'h(...(@@))',
  '(() => @@)()', '(() => (@@))()', '(() => ({p: @@}))()', '((p = @@) => p)()', '(function(p = @@){return p})()', 'new (class { q = @@ })().q', '(class { static q = @@ }).q',
  'new (class { [@@](){} })', 'class extends (@@) {}', '(@@) ** 2', '(@@)?.q', 'y = @@', '[y] = [@@]', '({y = @@} = o)', '(@@, a)', '(a, @@)', '(@@) in o', '(@@) instanceof X', 'o[@@]', 'o[@@] = a', '(@@).p = a',
  // defaults of binding patterns, wherever a pattern can stand
  '(() => { let {y = @@} = o; return y })()', '(() => { const [y = @@] = []; return y })()', '(() => { try { throw o } catch ({y = @@}) { return y } })()',
  '(() => { for (const {y = @@} of [o]) return y })()', '(() => { for (const [y = @@] of [[]]) return y })()', '(({y = @@}) => y)(o)', '(function ({y = @@}) { return y })(o)', '(([y = @@]) => y)([])',
  '(() => { let {[@@]: y} = o; return y })()', '(({[@@]: y}) => y)(o)', '(() => { for (const y in {[@@]: 1}) return y })()',
  // logical assignment, exponent assignment, labelled and switch positions inside an expression context
  'y ||= @@', 'y ??= @@', 'o.p &&= @@', '(() => { lbl: { if (c) break lbl; return @@ } })()', '(() => { switch (a) { case @@: return 1; default: return @@ } })()',
  // class positions
  '(class { static [@@] = 1 })', '(class { static { y = @@ } })', 'new (class { constructor(p = @@) { this.p = p } })().p', '(class { static m(p = @@) { return p } }).m()', '({ get [@@]() { return 1 } })', '({ set p(v = @@) {} })', '({ async *m() { yield @@ } })',
  'o.m?.(@@)', 'o?.[@@]', 'new X(@@)', 'new X(...(@@))',
  // curried and nested concise arrows: the innermost body is reached only through the outer ones
  '(q => r => @@)(a)(b)', '(() => () => () => @@)()()()', '(q => (r => @@))(a)(b)', '(q => r => ({ p: @@ }))(a)(b).p', '(async q => r => @@)(a)', '(q => function () { return r => @@ })(a)()(b)'
]
const EXPRCTX_ASYNC = ['await (@@)', 'await @@', '(async () => @@)()', '(async () => await (@@))()', '(async (q) => (await q) + (@@))(a)']
const EXPRCTX_GEN = ['yield (@@)', 'yield @@', 'yield* [@@]']

// ---- G4 statement contexts ---------------------------------------------------------------------------
const STMTCTX = {
  expr: 'x = @E@; return x',
  stmt: '@E@; return x',
  block: '{ x = @E@; } return x',
  nested_block: '{ { x = @E@; } } return x',
  var: 'var v = @E@; return v',
  let: 'let v = @E@; return v',
  const: 'const v = @E@; return v',
  return: 'return @E@',
  if_test: 'if (@E@) x = 1; else x = 2; return x',
  if_cons: 'if (c) x = @E@; return x',
  if_cons_block: 'if (c) { x = @E@ } return x',
  if_else: 'if (!c) y = 1; else x = @E@; return x',
  if_else_block: 'if (!c) y = 1; else { x = @E@ } return x',
  else_if_test: 'if (!c) y = 1; else if (@E@) x = 1; return x',
  else_if_cons: 'if (!c) y = 1; else if (c) x = @E@; return x',
  else_if_else: 'if (!c) y = 1; else if (!c) y = 2; else x = @E@; return x',
  while_test: 'while (@E@) { x = 1; break } return x',
  while_body: 'let n = 0; while (n++ < 2) x = @E@; return x',
  while_body_block: 'let n = 0; while (n++ < 2) { x = @E@ } return x',
  do_body: 'let n = 0; do x = @E@; while (n++ < 1); return x',
  do_test: 'let n = 0; do { if (n++) break } while (@E@); return n',
  for_init: 'for (x = @E@; false;) {} return x',
  for_init_decl: 'for (let v = @E@; x === undefined; x = v) {} return x',
  for_test: 'for (let n = 0; @E@;) { x = 1; break } return x',
  for_update: 'for (let n = 0; n < 1; @E@) { n++ } return x',
  for_body: 'for (let n = 0; n < 2; n++) x = @E@; return x',
  for_of: 'for (const q of @E@) { x = q; break } return x',
  for_of_body: 'for (const q of arr) x = @E@; return x',
  for_in: 'for (const q in @E@) { x = q; break } return x',
  switch_disc: 'switch (@E@) { case 1: x = 1; break; default: x = 2 } return x',
  switch_case_test: 'switch (a) { case @E@: x = 1; break; default: x = 2 } return x',
  switch_case_body: 'switch (1) { case 1: x = @E@; break } return x',
  switch_default_body: 'switch (1) { default: x = @E@ } return x',
  try: 'try { x = @E@ } catch (e) { y = e } return x',
  catch: 'try { throw E.err } catch (e) { x = @E@ } return x',
  finally: 'try { y = 1 } finally { x = @E@ } return x',
  throw: 'try { throw @E@ } catch (e) { return e }',
  label_block: 'l1: { x = @E@; break l1 } return x',
  label_stmt: 'l1: x = @E@; return x',
  class_method: 'class K { m() { return @E@ } } return new K().m()',
  class_getter: 'class K { get m() { return @E@ } } return new K().m',
  class_setter: 'class K { set m(v) { x = @E@ } } new K().m = 1; return x',
  class_ctor: 'class K { constructor() { this.r = @E@ } } return new K().r',
  class_static_block: 'class K { static { x = @E@ } } return x',
  class_static_method: 'class K { static m() { return @E@ } } return K.m()',
  obj_method: 'return ({ m() { return @E@ } }).m()',
  obj_getter: 'return ({ get m() { return @E@ } }).m',
  fn_decl: 'function n1() { return @E@ } return n1()',
  fn_expr: 'return (function () { return @E@ })()',
  arrow_block: 'return (() => { return @E@ })()',
  arrow_block_stmt: 'return (() => { x = @E@; return x })()',
  closure_in_loop: 'const fs = []; for (let n = 0; n < 2; n++) { fs.push(() => @E@) } return fs.map((q) => q())',
  with: 'with (E.w) x = @E@; return x',
  generator: 'function* gen() { yield 1; const r = @E@; return r } const it = gen(); const seen = []; let st; let n = 0; while (!(st = it.next("y" + n++)).done && n < 12) seen.push(st.value); return [seen, st.value]',
  async: 'return (async () => { await null; return @E@ })()',
  async_fn: 'async function af() { const r = @E@; await null; return r } return af()'
}
const STMT_SLOPPY_ONLY = new Set(['with'])

// ---- G5 scope / file kinds ---------------------------------------------------------------------------
const PRE = "let a = E.a, b = E.b, c = E.c, i = E.i, k = E.k, m = E.m, o = E.o, s = E.s, x = E.x, y; const arr = E.arr, X = E.X,\n  f = () => { E.ev('f'); if (E.fMutates) a = E.a2; if (E.fThrows) throw E.err; return E.fv },\n  g = (...r) => { E.ev('g', r); return E.gv }, h = (...r) => { E.ev('h', r); return r[0] },\n  aloneMethod = (...r) => { E.ev('alone', r); return r[0] }, cantAloneMethod = (...r) => { E.ev('cantAlone', r); return r[0] };\n"
const SCOPES = {
  sloppy: (body) => `function main(E) { ${PRE}  ${body}\n}`,
  strict_fn: (body) => `function main(E) { 'use strict'; ${PRE}  ${body}\n}`,
  strict_file: (body) => `'use strict';\nfunction main(E) { ${PRE}  ${body}\n}`,
  module: (body) => `export function main(E) { ${PRE}  ${body}\n}`,
  crlf: (body) => `function main(E) { ${PRE}  ${body}\n}`.replace(/\n/g, '\r\n'),
  comments: (body) => `// leading comment ñ\n/* block */\nfunction main(E) { ${PRE}  /* c1 */ ${body} // c2\n}`,
  hashbang: (body) => `#!/usr/bin/env node\nfunction main(E) { ${PRE}  ${body}\n}`,
  // the file starts with an empty statement (defensive semicolon of concatenated scripts)
  empty_first: (body) => `;function main(E) { ${PRE}  ${body}\n}`,
  strict_file_empty: (body) => `'use strict';;\nfunction main(E) { ${PRE}  ${body}\n}`
}

// spread sources (slot S): every expression kind that may follow `...`
const SPREADS = ['arr', "'xy'", "'l' + 'm'", '`t${a}`', 'arr || []', 'o.arr ?? arr', 'c ? arr : []', '[a, f()]', 'h(arr)', 'arr.slice(0)', 'E.iter(arr)', 'a']

function fill (tpl, pick) {
  return tpl.replace(/@([XYZS])@/g, (_, s) => pick[s] === undefined ? (s === 'S' ? 'arr' : 'a') : pick[s])
}

function render (leaf) {
  if (leaf.code !== undefined) return leaf.code
  const op = fill(leaf.op, leaf)
  const ex = leaf.exprctx.replace('@@', () => op)
  const body = STMTCTX[leaf.stmtctx].replace('@E@', () => ex)
  return SCOPES[leaf.scope](body)
}

module.exports = { SPREADS, ATOMS_Q, ATOMS_T, SCHEMAS, EXPRCTX, EXPRCTX_ASYNC, EXPRCTX_GEN, STMTCTX, STMT_SLOPPY_ONLY, SCOPES, PRE, fill, render }
