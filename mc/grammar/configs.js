'use strict'
// Configurations (G6). FULL is the baseline of every program-space search.
const OPS = {
  plus: { src: 'plusOperator', operator: true },
  tpl: { src: 'tplOperator', operator: true }
}
const METHODS = [
  { src: 'trim' },
  { src: 'concat' },
  { src: 'substring', dst: 'stringSubstring' },
  { src: 'replace' },
  { src: 'slice' },
  { src: 'aloneMethod', allowedWithoutCallee: true },
  { src: 'cantAloneMethod' },
  // the other methods that are instrumented on string-literal receivers
  { src: 'replaceAll' },
  { src: 'padEnd' },
  { src: 'padStart', dst: 'stringPadStart' },
  { src: 'repeat' },
  // a DIRECT eval must stay direct (it sees the caller's scope)
  { src: 'eval', allowedWithoutCallee: true }
]
function cfg (methods, extra) {
  return Object.assign({ localVarPrefix: 'p', csiMethods: methods }, extra || {})
}
const FULL = cfg([OPS.plus, OPS.tpl].concat(METHODS))
const PLUS_ONLY = cfg([OPS.plus])
const TPL_ONLY = cfg([OPS.tpl])
const METHODS_ONLY = cfg(METHODS)
const NOTHING = cfg([])
const RENAMED = cfg([{ src: 'plusOperator', dst: 'plus', operator: true }, { src: 'tplOperator', dst: 'tpl', operator: true }].concat(METHODS.map((m) => Object.assign({}, m, { dst: 'str_' + m.src }))))
// several methods share one hook (as dd-trace does for trim/trimStart/trimEnd); the later ones must still be found
const SHARED_DST = cfg([OPS.plus, OPS.tpl].concat(METHODS.map((m, i) => Object.assign({}, m, { dst: i < 3 ? 'strOpA' : 'strOpB' }))))
const COMMENTS = Object.assign({}, FULL, { comments: true })
const DEBUG = Object.assign({}, FULL, { telemetryVerbosity: 'DEBUG' })

module.exports = { OPS, METHODS, cfg, FULL, PLUS_ONLY, TPL_ONLY, METHODS_ONLY, NOTHING, RENAMED, COMMENTS, DEBUG, SHARED_DST }
