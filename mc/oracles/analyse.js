'use strict'
// One pass over a rewrite response: annotated erasure of AST(content), lock-step comparison with
// AST(input), requirement classification, hook inventory. Feeds C02/C03/C04/C05/C06/C07/C12/C15.
const { erase, norm, isObj } = require('./erase')
const { cmpTrees, requirements, configModel } = require('./compare')

const WANT = ['astIn', 'astOut']

function analyse (resp, config) {
  const out = { status: resp.status, modified: false }
  if (resp.status !== 'ok') return out
  out.metrics = resp.metrics
  out.cm = configModel(config)
  out.modified = !!(resp.metrics && resp.metrics.status === 'modified')
  if (!resp.parseIn || !resp.parseIn.ok) { out.inputUnparsable = true; return out }
  out.inTree = norm(resp.parseIn.ast)
  out.kind = resp.parseIn.kind
  if (!resp.content) {
    out.reqs = requirements(out.inTree, out.cm)
    return out
  }
  if (!resp.reparse || !resp.reparse.ok) { out.contentUnparsable = resp.reparse ? (resp.reparse.error || resp.reparse.panic) : 'no reparse'; return out }
  out.outKind = resp.reparse.kind
  // independent of the erasure: every call `_ddiast.<name>(…)` anywhere in the content (the prologue only assigns)
  let sites = 0
  ;(function w (n) {
    if (Array.isArray(n)) { n.forEach(w); return }
    if (!isObj(n)) return
    if (n.type === 'CallExpression' && isObj(n.callee) && n.callee.type === 'MemberExpression' && isObj(n.callee.object) && n.callee.object.type === 'Identifier' && n.callee.object.value === '_ddiast') sites++
    for (const k of Object.keys(n)) if (k !== 'span') w(n[k])
  })(resp.reparse.ast)
  out.hookCallSites = sites
  const e = erase(resp.reparse.ast, resp.prefix)
  out.erasure = e
  const c = cmpTrees(out.inTree, e.tree, {})
  out.mismatches = c.mismatches
  out.duplicated = c.duplicated || []
  out.reqs = requirements(out.inTree, out.cm)
  return out
}

// tag of the operation under a hook, derived from the INPUT node (C15)
function tagOf (req) {
  switch (req.kind) {
    case 'plus': return '+'
    case 'plusassign': return '+='
    case 'tpl': return 'Tpl'
    case 'method': return req.node.callee.property.value
    case 'proto': return req.node.callee.object.property.value
    case 'bare': return req.node.callee.value
    default: return '?'
  }
}

function mismatchSig (m) {
  return `${m.why.replace(/\d+/g, 'N')} at ${m.path.replace(/\[\d+\]/g, '[]').split('.').slice(-3).join('.')} in=${String(m.a).split(':')[0]} out=${String(m.b).split(':')[0]}`
}

module.exports = { analyse, WANT, tagOf, mismatchSig }
