'use strict'
// Observable realm and differential runner (DESIGN §3.2). Input and content are compiled in fresh V8
// contexts and `main(E)` is called once per environment with structurally identical `E`s; the
// observation is (returned value | thrown error name, log of every externally visible effect).
const vm = require('vm')

const METHOD_NAMES = new Set(['trim', 'concat', 'substring', 'toUpperCase', 'aloneMethod', 'cantAloneMethod', 'slice', 'replace', 'stringSubstring', 'replaceAll', 'padEnd', 'padStart', 'repeat'])

class World {
  constructor () { this.log = []; this.labels = new WeakMap(); this.n = 0 }
  ev (...e) { if (!this.muted) this.log.push(e) }

  canon (v, depth = 0) {
    const t = typeof v
    if (v === null) return 'null'
    if (t === 'undefined') return 'undefined'
    if (t === 'string') {
      // Function.prototype.toString exposes the SOURCE TEXT of a function, which any re-printing changes
      // (layout, `=> e` vs `=> { return e; }`): strings carrying function source are compared modulo layout
      // (layout, `=> e` vs `=> { return e; }`) and which, when the body holds an instrumented operation, shows the
      // hook calls themselves; glued to other text (`x + (q => q)`) not even the start of the source can be told
      // (`"x0q => q"` vs `"x0(q)=>{…}"`): such strings are all alike for the comparison
      if (v.includes('function') || v.includes('=>')) v = '<string carrying function source>'
      return JSON.stringify(v)
    }
    if (t === 'number' || t === 'boolean' || t === 'bigint') return t[0] + ':' + String(v)
    if (t === 'symbol') return 'symbol'
    if (this.labels.has(v)) return '#' + this.labels.get(v)
    if (t === 'function') return 'function'
    const tag = Object.prototype.toString.call(v)
    if (tag === '[object Error]' || (typeof v.message === 'string' && typeof v.stack === 'string')) return 'Err:' + (v.name || 'Error')
    if (depth > 3) return '…'
    if (Array.isArray(v) || tag === '[object Array]') { const out = []; for (let i = 0; i < v.length; i++) out.push(i in v ? this.canon(v[i], depth + 1) : '<hole>'); return '[' + out.join(',') + ']' }
    if (tag !== '[object Object]') return tag
    const ks = Object.keys(v).sort()
    const cn = (v.constructor && v.constructor.name && v.constructor.name !== 'Object') ? v.constructor.name : ''
    return cn + '{' + ks.map((k) => k + ':' + this.canon(v[k], depth + 1)).join(',') + '}'
  }

  keyStr (k) { return typeof k === 'symbol' ? String(k.description ? 'Symbol(' + k.description + ')' : 'Symbol()') : String(k) }

  fn (label, ret) {
    const w = this
    const f = function (...args) { w.ev('call', label, w.canon(this), args.map((x) => w.canon(x))); return typeof ret === 'function' ? ret() : ret }
    this.labels.set(f, 'fn:' + label)
    return f
  }

  spy (label, table = {}, prim) {
    const w = this
    const cache = new Map()
    const store = new Map()
    const target = {}
    const p = new Proxy(target, {
      get (t, key) {
        if (key === Symbol.toPrimitive) return (hint) => { w.ev('coerce', label, hint); return prim === undefined ? label.toUpperCase() : prim }
        const ks = w.keyStr(key)
        // G7: reading `call` / `apply` of a value about to be invoked is how every hook invokes the original
        // function (`t.call(recv, …)`); those two reads are not part of the observable interface of a spy
        if (key === 'call' || key === 'apply') return undefined
        w.ev('get', label, ks)
        if (store.has(key)) return store.get(key)
        if (typeof key === 'symbol') return undefined
        if (cache.has(key)) return cache.get(key)
        let v
        if (Object.prototype.hasOwnProperty.call(table, key)) v = typeof table[key] === 'function' ? table[key]() : table[key]
        else if (METHOD_NAMES.has(key)) v = w.fn(label + '.' + key, () => w.child(label + '.' + key + '()'))
        else if (key === 'q' || key === 'r' || key === 'prototype') v = w.child(label + '.' + key)
        else if (key === 'p') v = label + '.p'
        else if (key === 'length') v = 3
        else if (key === 'nil') v = null
        else if (key === 'tag') v = w.fn(label + '.tag', 'TAGGED')
        else if (key === 'arr') v = ['oa1', 'oa2']
        else v = undefined
        cache.set(key, v)
        return v
      },
      set (t, key, v) { w.ev('set', label, w.keyStr(key), w.canon(v)); store.set(key, v); return true },
      has (t, key) { w.ev('has', label, w.keyStr(key)); return store.has(key) || key === 'p' || key === 'q' },
      deleteProperty (t, key) { w.ev('delete', label, w.keyStr(key)); store.delete(key); return true },
      ownKeys () { w.ev('ownKeys', label); return ['p'] },
      getOwnPropertyDescriptor (t, key) { w.ev('gopd', label, w.keyStr(key)); return key === 'p' ? { value: label + '.p', enumerable: true, configurable: true, writable: true } : undefined }
    })
    this.labels.set(p, label)
    return p
  }

  child (label) { this.n++; return this.spy(label) }
}

// environment descriptors: a, b, s in {str,num,null,undef,spy}; f in {ret,mut,throw}; c bool
const BASE_ENV = { a: 'str', b: 'str', s: 'str', f: 'ret', c: true, g: 'spy', o: 'spy' }
function val (w, kind, name, str) {
  switch (kind) {
    case 'str': return str
    case 'num': return 7
    case 'null': return null
    case 'undef': return undefined
    case 'spy': return w.spy(name)
    default: throw new Error('bad env kind ' + kind)
  }
}

function makeEnv (spec) {
  const w = new World()
  const err = new Error('harness'); err.name = 'HarnessError'
  class X {
    constructor (v) { w.ev('new X', w.canon(v)); this.v = v }
    concat (...r) { w.ev('X.concat', w.canon(this), r.map((x) => w.canon(x))); return 'Xc' }
    trim () { w.ev('X.trim', w.canon(this)); return 'Xt' }
    substring (...r) { w.ev('X.substring', w.canon(this), r.map((x) => w.canon(x))); return 'Xs' }
  }
  const E = {
    a: val(w, spec.a, 'a', ' s '),
    a2: 'A2',
    b: val(w, spec.b, 'b', 't'),
    c: spec.c,
    i: 1,
    k: 'p',
    m: 'concat',
    o: spec.o === 'null' ? null : w.spy('o'),
    o2: w.spy('o2'),
    s: val(w, spec.s, 's', ' u '),
    x: 'x0',
    arr: ['r1', 'r2'],
    X,
    w: {},
    err,
    fv: 'F',
    gv: spec.g === 'null' ? null : w.spy('G'),
    fMutates: spec.f === 'mut',
    fThrows: spec.f === 'throw',
    ev: (tag, args) => w.ev('ev', tag, args === undefined ? undefined : w.canon(args)),
    p: Promise.resolve('P'),
    iter: (src) => ({ [Symbol.iterator]: () => { w.ev('iter-open'); let i = 0; return { next: () => { w.ev('iter-next', i); return i < src.length ? { value: src[i++], done: false } : { value: undefined, done: true } } } } })
  }
  const self = w.spy('self')
  return { w, E, self }
}

function envVariants (code, tier) {
  // most discriminating deviations first (a caller may take a prefix)
  const has = (re) => re.test(code)
  const out = [Object.assign({}, BASE_ENV)]
  const add = (d) => out.push(Object.assign({}, BASE_ENV, d))
  if (has(/\bf\(\)/)) add({ f: 'mut' })
  if (has(/\ba\b/)) add({ a: 'spy' })
  if (has(/\bs\b/)) add({ s: 'null' })
  if (has(/\bf\(\)/)) add({ f: 'throw' })
  if (has(/\ba\b/)) add({ a: 'null' })
  if (has(/\bc\b/)) add({ c: false })
  if (has(/\bb\b/)) add({ b: 'spy' })
  if (has(/\bo\b/)) add({ o: 'null' })
  if (has(/\ba\b/)) { add({ a: 'num' }); add({ a: 'undef' }) }
  if (has(/\bs\b/)) { add({ s: 'undef' }); add({ s: 'spy' }) }
  if (has(/\bb\b/) && tier === 'thorough') add({ b: 'null' })
  if (has(/\bg\(/) || has(/\bg\?\./)) add({ g: 'null' })
  if (has(/\ba\b/) && has(/\bb\b/)) add({ a: 'spy', b: 'spy' })
  if (has(/\ba\b/) && has(/\bf\(\)/)) add({ a: 'spy', f: 'mut' })
  if (has(/\bs\b/) && has(/\ba\b/)) add({ s: 'null', a: 'null' })
  return out
}

// ---- compile & run -------------------------------------------------------------------------------
async function compile (code, kind, filename, preinstall) {
  const sandbox = {}
  const ctx = vm.createContext(sandbox)
  // the source text of functions and classes is re-printed by any rewrite (layout, `=> e` vs `=> { return e; }`,
  // the injected names and hook calls inside a body): in both realms every function reads the same
  vm.runInContext("Object.defineProperty(Function.prototype, 'toString', { value: function toString () { return 'function () { [source text] }' }, writable: true, configurable: true })", ctx)
  if (preinstall) preinstall(ctx)
  if (kind === 'module') {
    const mod = new vm.SourceTextModule(code, { context: ctx, identifier: filename })
    await mod.link(() => { throw new Error('no imports in harness modules') })
    await mod.evaluate()
    ctx.main = mod.namespace.main
  } else {
    new vm.Script(code, { filename }).runInContext(ctx)
  }
  if (typeof ctx.main !== 'function') vm.runInContext('if (typeof main === "function") globalThis.main = main', ctx)
  return ctx
}

const RUNNER = new vm.Script('__r = undefined; __t = undefined; try { __r = main.call(__self, __E) } catch (e) { __t = { e } }')

async function runOne (ctx, spec, onWorld, timeout = 2000) {
  const { w, E, self } = makeEnv(spec)
  if (onWorld) onWorld(w)
  ctx.__E = E
  ctx.__self = self
  let result
  try {
    RUNNER.runInContext(ctx, { timeout })
    if (ctx.__t) result = 'throw ' + w.canon(ctx.__t.e)
    else {
      let r = ctx.__r
      if (r && typeof r.then === 'function' && !w.labels.has(r)) {
        try {
          r = await Promise.race([r, new Promise((resolve, reject) => setTimeout(() => reject(new Error('harness-async-timeout')), 2000))])
          result = 'resolve ' + w.canon(r)
        } catch (e) { result = 'reject ' + w.canon(e) }
      } else result = 'return ' + w.canon(r)
    }
  } catch (e) {
    result = 'machinery ' + String(e && e.message)
  }
  ctx.__E = undefined; ctx.__self = undefined; ctx.__r = undefined; ctx.__t = undefined
  return { result, log: w.log.map((e) => JSON.stringify(e)) }
}

function sameObs (A, B, relaxCoerce) {
  if (A.result !== B.result) return { same: false, why: 'result', a: A.result, b: B.result }
  if (A.log.length === B.log.length && A.log.every((x, i) => x === B.log[i])) return { same: true }
  if (relaxCoerce && movedLater(A.log, B.log, /^(throw|reject) /.test(A.result))) return { same: true, relaxed: true }
  let i = 0
  while (i < A.log.length && i < B.log.length && A.log[i] === B.log[i]) i++
  return { same: false, why: 'log@' + i, a: A.log.slice(Math.max(0, i - 1), i + 3).join(' '), b: B.log.slice(Math.max(0, i - 1), i + 3).join(' ') }
}

// Stated exemption of C01: the implicit ToString of a template substitution may happen later than in
// the input (after later substitutions were evaluated). `out` must be obtainable from `inp` by moving
// string-coercion events later, keeping their relative order; if the run ends in an exception the
// deferred coercions may never happen.
function movedLater (inp, out, threw) {
  // with nested templates the inner template completes (and coerces) before the outer one coerces its
  // earlier substitutions, so deferred coercions need not come back in their original order
  const isC = (x) => x.startsWith('["coerce"') && x.endsWith(',"string"]')
  const deferred = []
  let i = 0
  for (const e of out) {
    if (i < inp.length && inp[i] === e) { i++; continue }
    const k = deferred.indexOf(e)
    if (k >= 0) { deferred.splice(k, 1); continue }
    while (i < inp.length && inp[i] !== e && isC(inp[i])) deferred.push(inp[i++])
    if (i < inp.length && inp[i] === e) { i++; continue }
    return false
  }
  while (i < inp.length && isC(inp[i])) deferred.push(inp[i++])
  if (i < inp.length) return false
  return deferred.length === 0 || threw
}

// template literal with >= 2 substitutions anywhere in the input (stated exemption of C01)
function hasMultiSubstTemplate (astNorm) {
  let found = false
  ;(function w (n) {
    if (found || n === null || typeof n !== 'object') return
    if (Array.isArray(n)) { n.forEach(w); return }
    if (n.type === 'TemplateLiteral' && n.expressions && n.expressions.length >= 2) { found = true; return }
    for (const k of Object.keys(n)) if (k[0] !== '$') w(n[k])
  })(astNorm)
  return found
}

module.exports = { World, makeEnv, envVariants, compile, runOne, sameObs, hasMultiSubstTemplate, BASE_ENV }
