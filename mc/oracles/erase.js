'use strict'
// Annotated erasure (DESIGN §3.1) on the JSON ASTs produced by the rewriter's own parser.
//
//   erase(AST(content), prefix)  undoes exactly what C02 lists — prologue, injected `let`s, paren
//   sequences of temp assignments, hook calls, null-guards, arrow-body blocks — and RECORDS what it
//   undid, so the same pass serves C02 (equality), C03 (hook argument lists), C04 (completeness),
//   C05 (closed world of names), C06 (temporaries), C07 (directives), C12/C15 (hook count and tags).
//
// Nothing here consults the rewriter's source, its temp numbering or its declaration style.

const NS = '_ddiast'

function isObj (x) { return x !== null && typeof x === 'object' && !Array.isArray(x) }
function isIdent (n, name) { return isObj(n) && n.type === 'Identifier' && (name === undefined || n.value === name) }
function tempPrefix (prefix) { return '__datadog_' + prefix + '_' }

function isHookCallee (c) {
  return isObj(c) && c.type === 'MemberExpression' && isIdent(c.object, NS) && isObj(c.property) && c.property.type === 'Identifier'
}
function isHookCall (n) { return isObj(n) && n.type === 'CallExpression' && isHookCallee(n.callee) }

function unparen (n) { while (isObj(n) && n.type === 'ParenthesisExpression') n = n.expression; return n }

class Eraser {
  constructor (prefix) {
    this.tp = tempPrefix(prefix)
    this.problems = [] // {rule, sig, detail}
    this.hooks = [] // {name, node (erased), rest (raw), first (raw), seqTemps}
    this.lets = [] // {names, index, stmtsBefore, blockKind}
    this.prologue = null
    this.seqCount = 0
    this.guards = 0
    this.guardRecs = []
    this.inline = new Map() // temporaries assigned inline in an assignment target: (t = obj).p = ...
  }

  problem (rule, sig, detail) { this.problems.push({ rule, sig, detail }) }
  isTemp (n) { return isIdent(n) && n.value.startsWith(this.tp) }

  isInstrSeq (seq) {
    if (!isObj(seq) || seq.type !== 'SequenceExpression' || seq.expressions.length < 2) return false
    const xs = seq.expressions
    for (let i = 0; i < xs.length - 1; i++) {
      const a = xs[i]
      if (!(isObj(a) && a.type === 'AssignmentExpression' && a.operator === '=' && this.isTemp(a.left))) return false
    }
    return true
  }

  // ---- generic recursion ---------------------------------------------------------------------
  er (n, env) {
    if (Array.isArray(n)) return n.map((x) => this.er(x, env))
    if (!isObj(n)) return n
    // ExprOrSpread: `...temp` re-spreads the fresh array copy the temporary holds
    if (n.type === undefined && 'spread' in n && 'expression' in n && n.spread && this.isTemp(n.expression)) {
      return { spread: n.spread, expression: this.useTemp(n.expression, env, true) }
    }
    switch (n.type) {
      case 'ParenthesisExpression': {
        const inner = n.expression
        if (this.isInstrSeq(inner)) return this.eraseSeq(inner, env)
        return { type: 'ParenthesisExpression', span: n.span, expression: this.er(inner, env) }
      }
      case 'SequenceExpression':
        if (this.isInstrSeq(n)) return this.eraseSeq(n, env) // printer may have dropped redundant parens
        break
      case 'CallExpression':
        if (isHookCall(n)) return this.eraseHook(n, env, null)
        break
      case 'AssignmentExpression':
        if (n.operator === '=' && this.isTemp(n.left)) {
          // inline definition: this IS the single evaluation of the expression; later mentions re-read the value
          const b = { name: n.left.value, raw: n.right, env, uses: 1, inline: true }
          b.erased = this.er(n.right, env)
          this.inline.set(b.name, b)
          return isObj(b.erased) ? Object.assign({}, b.erased, { $inlineDef: b.name }) : b.erased
        }
        break
      case 'Identifier':
        if (this.isTemp(n)) return this.useTemp(n, env, false)
        if (n.value === NS) this.problem('stray-namespace', 'ident', 'reference to ' + NS + ' that is not a hook call')
        break
      case 'BlockStatement':
        return this.eraseBlock(n, env)
      case 'Script':
      case 'Module':
        return this.eraseProgram(n, env)
      default:
    }
    return this.mapChildren(n, env)
  }

  mapChildren (n, env) {
    const o = {}
    for (const k of Object.keys(n)) {
      const v = n[k]
      if (k === 'span' || k === 'ctxt') { o[k] = v; continue }
      o[k] = (typeof v === 'object' && v !== null) ? this.er(v, env) : v
    }
    return o
  }

  // ---- prologue / lets -----------------------------------------------------------------------
  isPrologueIf (s) {
    if (!isObj(s) || s.type !== 'IfStatement') return false
    const t = s.test
    return isObj(t) && t.type === 'BinaryExpression' && t.operator === '===' && isObj(t.left) && t.left.type === 'UnaryExpression' &&
      t.left.operator === 'typeof' && isIdent(t.left.argument, NS) && isObj(t.right) && t.right.type === 'StringLiteral' && t.right.value === 'undefined'
  }

  eraseProgram (n, env) {
    const body = n.body
    const out = []
    let found = null
    for (let i = 0; i < body.length; i++) {
      const s = body[i]
      if (!found && s.type === 'EmptyStatement' && i + 1 < body.length && this.isPrologueIf(body[i + 1])) {
        found = { index: i, ifStmt: body[i + 1], before: body.slice(0, i) }
        i++
        continue
      }
      if (!found && this.isPrologueIf(s)) { found = { index: i, ifStmt: s, before: body.slice(0, i), noEmpty: true }; continue }
      out.push(s)
    }
    this.prologue = found
    const o = Object.assign({}, n)
    o.body = this.er(out, env)
    return o
  }

  isInjectedLet (s) {
    return isObj(s) && s.type === 'VariableDeclaration' && s.kind === 'let' && s.declarations.length > 0 &&
      s.declarations.every((d) => d.init === null && this.isTemp(d.id))
  }

  eraseBlock (n, env) {
    const stmts = []
    n.stmts.forEach((s, i) => {
      if (this.isInjectedLet(s)) {
        this.lets.push({ names: s.declarations.map((d) => d.id.value), index: i, before: n.stmts.slice(0, i), span: s.span, blockSpan: n.span })
      } else stmts.push(s)
    })
    const o = Object.assign({}, n)
    const saved = this.inline
    this.inline = new Map()
    // a block with its own injected `let` shadows the temporaries of whatever expression encloses it (a class or
    // function expression inside an instrumented operation): names declared here never resolve outwards
    const declared = new Set()
    n.stmts.forEach((s) => { if (this.isInjectedLet(s)) s.declarations.forEach((d) => declared.add(d.id.value)) })
    const inner = declared.size ? { map: new Map(), parent: env, declares: declared } : env
    o.stmts = stmts.map((s) => { this.inline.clear(); return this.er(s, inner) })
    this.inline = saved
    return o
  }

  // ---- temporaries ---------------------------------------------------------------------------
  lookup (name, env) {
    for (let e = env; e; e = e.parent) {
      if (e.map.has(name)) return e.map.get(name)
      if (e.declares && e.declares.has(name)) break
    }
    return this.inline.get(name) || null
  }

  bindingExpr (b) {
    if (b.erased === undefined) {
      if (b.erasing) {
        // `t = t.m`: the temporary is assigned an expression that reads the temporary itself
        this.problem('temp-self-reference', 'seq', `temporary ${b.name} is assigned an expression that mentions ${b.name} itself (${summ(b.raw)})`)
        return { type: 'Identifier', value: b.name, span: b.span }
      }
      b.erasing = true
      b.erased = this.er(b.raw, b.env)
      b.erasing = false
    }
    return b.erased
  }

  useTemp (id, env, spreadUse) {
    const b = this.lookup(id.value, env)
    if (!b) {
      this.problem('temp-outside-sequence', 'use', `temporary ${id.value} is read outside the parenthesised sequence that assigns it`)
      return id
    }
    if (b.guardMarker) { b.uses++; return { type: '$GuardVar', name: id.value, binding: b } }
    if (b.inline) return isObj(b.erased) ? Object.assign({}, b.erased, { $reread: b.name }) : b.erased
    b.uses++
    let e
    if (spreadUse) {
      if (b.spreadOf) e = this.er(b.spreadOf, b.env)
      else {
        this.problem('spread-not-materialised', 'spread', `temporary ${id.value} is re-spread but was not assigned a fresh array copy [...x]`)
        e = this.bindingExpr(b)
      }
    } else e = this.bindingExpr(b)
    if (isObj(e)) e = Object.assign({}, e, { $fromTemp: { name: b.name, order: b.order, seq: b.seq } })
    return e
  }

  mkBinding (assign, env, order, seq) {
    const raw = assign.right
    const b = { name: assign.left.value, raw, env, uses: 0, order, seq, span: assign.span }
    const arr = unparen(raw)
    if (isObj(arr) && arr.type === 'ArrayExpression' && arr.elements.length === 1 && arr.elements[0] && arr.elements[0].spread) b.spreadOf = arr.elements[0].expression
    return b
  }

  // ---- sequences -----------------------------------------------------------------------------
  eraseSeq (seq, env) {
    const seqId = ++this.seqCount
    const local = { map: new Map(), parent: env }
    const xs = seq.expressions
    const mine = []
    for (let i = 0; i < xs.length - 1; i++) {
      const b = this.mkBinding(xs[i], local, i, seqId)
      if (local.map.has(b.name)) this.problem('temp-assigned-twice', 'seq', `temporary ${b.name} is assigned twice in one sequence`)
      local.map.set(b.name, b)
      mine.push(b)
    }
    const tail = xs[xs.length - 1]
    let result
    if (isHookCall(tail)) result = this.eraseHook(tail, local, mine)
    else if (this.isGuard(tail)) result = this.eraseGuard(tail, local, mine)
    else {
      this.problem('unknown-sequence-tail', tail.type, 'sequence of temporary assignments does not end in a hook call or a null-guard')
      result = this.er(tail, local)
    }
    for (const b of mine) {
      if (b.uses === 0) this.problem('temp-unused', 'seq', `temporary ${b.name} is assigned (${summ(b.raw)}) but its value is never used: the assigned expression would be dropped`)
      else if (b.uses > 1) this.problem('temp-nonlinear', 'seq', `temporary ${b.name} (${summ(b.raw)}) stands for ${b.uses} evaluations after erasure`)
    }
    // order: substituted sites (evaluation order of the erased tree) must follow assignment order
    const sites = []
    collectSites(result, seqId, sites)
    let last = -1
    for (const s of sites) {
      if (s.protoPath) continue // stated exemption: static X.prototype.m path vs this-argument
      if (s.order < last) { this.problem('temp-order', 'seq', `temporaries are assigned in an order different from the evaluation order of the expression they came from (${summ(result)})`); break }
      last = s.order
    }
    return result
  }

  // ---- hook calls ----------------------------------------------------------------------------
  eraseHook (call, env, mine) {
    const name = call.callee.property.value
    const args = call.arguments
    if (args.length === 0 || args[0].spread) {
      this.problem('hook-shape', name, 'hook call without a plain first argument')
      return this.mapChildren(call, env)
    }
    const first = unparen(args[0].expression)
    const rest = args.slice(1)
    const rec = { name, rest, first, span: call.span, restOk: true, kind: null }
    // every operand handed to the hook must be a literal, an identifier or (...)temporary: nothing is evaluated twice
    for (const a of rest) {
      const e = a.expression
      // a constant addition ('a' + 'b') has no observable evaluation, so passing it again is harmless
      const simple = isObj(e) && (e.type === 'Identifier' || isLitSum(e) || (e.type === 'TemplateLiteral' && e.expressions.length === 0) || (e.type === 'UnaryExpression' && e.operator === 'void' && isObj(e.argument) && /Literal$/.test(e.argument.type)))
      if (!simple) { rec.restOk = false; this.problem('hook-arg-not-simple', name, `hook operand ${summ(e)} is an expression that would be evaluated a second time`) }
      if (a.spread && !(this.isTemp(e)) && !isLitSum(e)) { rec.restOk = false; this.problem('hook-arg-spread', name, `hook operand ...${summ(e)} re-spreads something that is not a temporary`) }
      if (a.spread && this.isTemp(e)) { const b = this.lookup(e.value, env); if (b && !b.spreadOf) this.problem('spread-not-materialised', 'hookarg', `hook operand ...${e.value} spreads a temporary that is not a fresh array copy`) }
      if (this.isTemp(e) && !this.lookup(e.value, env)) this.problem('temp-outside-sequence', 'hookarg', `hook operand ${e.value} is not assigned in an enclosing sequence`)
    }
    let erased
    const f = first
    if (f.type === 'CallExpression' && isObj(f.callee) && f.callee.type === 'MemberExpression' && f.callee.property.type === 'Identifier' &&
        (f.callee.property.value === 'call' || f.callee.property.value === 'apply') && this.isTemp(f.callee.object)) {
      erased = this.resugarCall(f, env, rec)
    } else {
      if (f.type === 'BinaryExpression') { rec.kind = 'bin'; this.checkRest(rec, [f.left, f.right].map(plainArg)) } else if (f.type === 'TemplateLiteral') { rec.kind = 'tpl'; this.checkRest(rec, f.expressions.map(plainArg)) } else if (f.type === 'CallExpression') {
        rec.kind = 'bare'
        this.checkRest(rec, [plainArg(f.callee), plainArg({ type: 'Identifier', value: 'undefined' })].concat(f.arguments))
      } else { rec.kind = 'other'; this.problem('hook-first-arg-shape', name, `hook wraps an unexpected expression kind ${f.type}`) }
      this.keptIdentRule(f, env, rec)
      erased = this.er(f, env)
    }
    erased = Object.assign({}, erased, { $hook: { name, kind: rec.kind, span: call.span, n: this.hooks.length } })
    rec.node = erased
    this.hooks.push(rec)
    return erased
  }

  // first argument F.call(R, A...) / F.apply(R, [A...]) with F a temporary
  resugarCall (f, env, rec) {
    const via = f.callee.property.value
    const F = f.callee.object
    const fb = this.lookup(F.value, env)
    const cargs = f.arguments
    rec.kind = 'method'
    rec.via = via
    if (!fb) { this.problem('temp-outside-sequence', 'callee', `callee temporary ${F.value} not assigned in an enclosing sequence`); return this.mapChildren(f, env) }
    // the operands the hook must have received
    let expect
    const spreadThis = cargs.length && cargs[0].spread
    if (via === 'call') expect = [plainArg(F)].concat(cargs)
    else {
      // apply(R, [A...]) -> F, R, A...   |  apply(R, arr) / apply(R) -> don't-care shapes: F, R, arr
      expect = [plainArg(F)].concat(cargs.length ? [cargs[0]] : [])
      if (cargs.length > 1) {
        const arr = unparen(cargs[1].expression)
        // a hole of the argument array is the argument value `undefined`
        if (arr.type === 'ArrayExpression' && !cargs[1].spread) for (const el of arr.elements) expect.push(el || { spread: null, expression: { type: '$Hole' } }); else expect.push(cargs[1])
      }
    }
    // apply(R, [A...], surplus...): the surplus arguments are evaluated but are NOT arguments of the method. The
    // implementation hands them to the hook as if they were (whole, or element by element when they are array
    // literals); that shape is reported under its own signature
    let surplusShape = false
    if (via === 'apply' && cargs.length > 2) {
      const loose = expect.slice()
      for (let i = 2; i < cargs.length; i++) {
        const e = unparen(cargs[i].expression)
        if (e.type === 'ArrayExpression' && !cargs[i].spread) for (const el of e.elements) { if (el) loose.push(el) } else loose.push(cargs[i])
      }
      const got = rec.rest
      surplusShape = got.length === loose.length && got.length > expect.length && got.every((g, i) => !!g.spread === !!loose[i].spread && simpleEq(unparen(g.expression), unparen(loose[i].expression)))
    }
    if (surplusShape) {
      rec.restOk = false
      this.problem('hook-operands', 'method:apply-surplus-arguments', `hook ${rec.name} receives (${rec.rest.map((a) => (a.spread ? '...' : '') + summ(a.expression)).join(', ')}): the arguments of apply() after the argument array are not arguments of the method (it is invoked with (${expect.slice(2).map((a) => summ(a.expression)).join(', ')}))`)
    } else this.checkRest(rec, expect)
    const fraw = unparen(fb.raw)
    const R = cargs.length ? cargs[0] : null
    const sameReceiver = R && !R.spread && fraw.type === 'MemberExpression' && fraw.property.type === 'Identifier' && (
      (this.isTemp(R.expression) && isIdent(fraw.object, R.expression.value)) ||
      (!this.isTemp(R.expression) && /Literal$/.test(R.expression.type) && litEq(fraw.object, R.expression)))
    if (sameReceiver && via === 'call') {
      // R.m(A...)  — the `.call(R` mention and the `R.m` mention denote ONE evaluation of R
      fb.uses++
      rec.method = fraw.property.value
      rec.form = 'member'
      let obj
      if (this.isTemp(R.expression)) obj = this.useTemp(R.expression, env, false)
      else obj = this.er(R.expression, env)
      const callee = { type: 'MemberExpression', span: fraw.span, object: obj, property: fraw.property, $fromTemp: { name: fb.name, order: fb.order, seq: fb.seq } }
      return { type: 'CallExpression', span: f.span, callee, arguments: this.erArgs(cargs.slice(1), env), typeArguments: null }
    }
    // prototype form (or anything else): substitute the path, keep .call/.apply
    rec.form = 'path'
    if (fraw.type === 'MemberExpression' && fraw.property.type === 'Identifier') rec.method = fraw.property.value
    fb.uses++
    let path = this.bindingExpr(fb)
    // the stated exemption covers a STATIC path only (names, `this`, literals, keys that are names or literals,
    // parentheses): a holder that runs code keeps its place in the evaluation order
    const isStaticPath = (n) => {
      n = unparen(n)
      if (!isObj(n)) return false
      if (n.type === 'Identifier' || n.type === 'ThisExpression' || /Literal$/.test(n.type)) return true
      if (n.type !== 'MemberExpression') return false
      const pr = n.property
      const keyOk = isObj(pr) && (pr.type === 'Identifier' || pr.type === 'PrivateName' || (pr.type === 'Computed' && (() => { const k = unparen(pr.expression); return isObj(k) && (k.type === 'Identifier' || /Literal$/.test(k.type)) })()))
      return keyOk && isStaticPath(n.object)
    }
    if (isObj(path)) path = Object.assign({}, path, { $fromTemp: { name: fb.name, order: fb.order, seq: fb.seq, protoPath: isStaticPath(fraw) } })
    const callee = { type: 'MemberExpression', span: f.callee.span, object: path, property: f.callee.property }
    return { type: 'CallExpression', span: f.span, callee, arguments: this.erArgs(cargs, env), typeArguments: null }
  }

  erArgs (args, env) {
    return args.map((a) => {
      if (a.spread && this.isTemp(a.expression)) return { spread: a.spread, expression: this.useTemp(a.expression, env, true) }
      return { spread: a.spread, expression: this.er(a.expression, env) }
    })
  }

  checkRest (rec, expect) {
    const got = rec.rest
    let ok = got.length === expect.length
    if (ok) {
      for (let i = 0; i < got.length; i++) {
        if (!!got[i].spread !== !!expect[i].spread || !simpleEq(unparen(got[i].expression), unparen(expect[i].expression))) { ok = false; break }
      }
    }
    // user identifiers handed to the hook are second copies of a reference of the wrapped operation (C09 looks at
    // the positions of both)
    if (ok) {
      rec.copies = []
      for (let i = 0; i < got.length; i++) {
        const g = unparen(got[i].expression); const e = unparen(expect[i].expression)
        if (isObj(g) && isObj(e) && g.type === 'Identifier' && e.type === 'Identifier' && !this.isTemp(g) && g.span && e.span && e.span.start > 0) rec.copies.push({ copy: g.span, of: e.span, name: g.value })
      }
    }
    if (!ok) {
      rec.restOk = false
      let what = got.length < expect.length ? 'missing' : got.length > expect.length ? 'extra' : 'different'
      if (what === 'missing') {
        // which expected operands are absent? (greedy alignment)
        const missing = []
        let j = 0
        for (const ex of expect) { if (j < got.length && !!got[j].spread === !!ex.spread && simpleEq(unparen(got[j].expression), unparen(ex.expression))) j++; else missing.push(ex) }
        if (j === got.length && missing.length && missing.every((m) => { const e = unparen(m.expression); return isObj(e) && e.type === 'BinaryExpression' && e.operator === '+' })) what = 'missing-plus-operand'
      }
      this.problem('hook-operands', rec.kind + ':' + what,
        `hook ${rec.name} receives (${got.map((a) => (a.spread ? '...' : '') + summ(a.expression)).join(', ')}) but the wrapped operation uses (${expect.map((a) => (a.spread ? '...' : '') + summ(a.expression)).join(', ')})`)
    }
  }

  // a user identifier left in place must not be followed (in evaluation order) by a hoisted operand that can run code
  keptIdentRule (f, env, rec) {
    if (f.type !== 'BinaryExpression') return
    const l = unparen(f.left); const r = unparen(f.right)
    if (isIdent(l) && !this.isTemp(l) && this.isTemp(r)) {
      const b = this.lookup(r.value, env)
      if (b) {
        const raw = unparen(b.raw)
        const pure = isObj(raw) && (raw.type === 'Identifier' || /Literal$/.test(raw.type) || raw.type === 'ThisExpression')
        if (!pure) this.problem('kept-ident-before-effect', 'bin', `identifier ${l.value} is read after ${summ(raw)} was evaluated, although it precedes it in the original expression`)
      }
    }
  }

  // ---- null guards ---------------------------------------------------------------------------
  isGuard (n) {
    n = unparen(n)
    return isObj(n) && n.type === 'ConditionalExpression' && isObj(n.test) && n.test.type === 'BinaryExpression' &&
      this.isTemp(n.test.left) && isObj(n.test.right) && n.test.right.type === 'NullLiteral'
  }

  eraseGuard (g, env, mine) {
    g = unparen(g)
    this.guards++
    const t = g.test.left.value
    if (g.test.operator !== '==') this.problem('guard-operator', g.test.operator, `null-guard uses ${g.test.operator} instead of == null`)
    if (!isIdent(unparen(g.consequent), 'undefined')) this.problem('guard-consequent', 'cons', 'null-guard does not yield undefined')
    const b = env.map.get(t)
    if (!b) { this.problem('guard-var-foreign', 'guard', `null-guard tests ${t}, which is not assigned in its own sequence`); return this.er(g, env) }
    b.guardMarker = true
    let rest = this.er(g.alternate, env)
    b.guardMarker = false
    // find the unique marker on the spine
    const total = countMarkers(rest, t)
    let node = rest
    const spine = []
    let holder = null; let slot = null
    for (;;) {
      if (!isObj(node)) break
      if (node.type === 'ParenthesisExpression') { node = node.expression; continue }
      if (node.type === 'OptionalChainingExpression') { node = node.base; continue } // later link of the same chain, left as written
      if (node.type === 'CallExpression') {
        spine.push(node)
        // optional invocation of a member: t.call(R, A...) with t bound to R.m
        const c = node.callee
        if (isObj(c) && c.type === 'MemberExpression' && isObj(c.object) && c.object.type === '$GuardVar' && c.property.type === 'Identifier' && c.property.value === 'call' &&
            node.arguments.length >= 1 && !node.arguments[0].spread) {
          const fraw = unparen(b.raw)
          const R = node.arguments[0].expression
          if (fraw.type === 'MemberExpression' && R.$fromTemp && isIdent(fraw.object, R.$fromTemp.name)) {
            // R.m?.(A...) : R was substituted once (as this-argument); build callee R.m
            const callee = { type: 'MemberExpression', span: fraw.span, object: R, property: fraw.property }
            node.callee = callee
            node.arguments = node.arguments.slice(1)
            node.optional = true
            node.inChain = true
            spine.pop()
            holder = 'done'
            break
          }
        }
        if (isObj(c) && c.type === '$GuardVar') { holder = node; slot = 'callee'; break }
        node = c
        continue
      }
      if (node.type === 'MemberExpression') {
        spine.push(node)
        if (isObj(node.object) && node.object.type === '$GuardVar') { holder = node; slot = 'object'; break }
        node = node.object
        continue
      }
      break
    }
    if (!holder) {
      this.problem('guard-not-on-spine', 'guard', `the guarded temporary ${t} is not the base of the access chain it guards (${summ(rest)})`)
      rest = replaceMarkers(rest, t, () => this.bindingExpr(b))
      return rest
    }
    if (total !== 1) this.problem('guard-var-multiple', 'guard', `the guarded temporary ${t} occurs ${total} times in the guarded expression`)
    if (holder !== 'done') {
      holder[slot] = this.bindingExpr(b)
      holder.optional = true
      holder.inChain = true
      spine.pop()
    }
    for (const s of spine) { s.inChain = true; if (s.optional === undefined) s.optional = false }
    if (total > 1) rest = replaceMarkers(rest, t, () => this.bindingExpr(b))
    // does the lowered chain hold an instrumented operation at all? (C05: an unlisted operation stays as written)
    let hooked = false
    ;(function w (n) { if (hooked || n === null || typeof n !== 'object') return; if (Array.isArray(n)) { n.forEach(w); return } if (n.$hook) { hooked = true; return } for (const k of Object.keys(n)) w(n[k]) })(rest)
    this.guardRecs.push({ temp: t, hooked, text: summ(rest) })
    return Object.assign(rest, { $guard: { temp: t } })
  }
}

function countMarkers (n, t) {
  let c = 0
  ;(function w (x) {
    if (Array.isArray(x)) { x.forEach(w); return }
    if (!isObj(x)) return
    if (x.type === '$GuardVar') { if (x.name === t) c++; return }
    for (const k of Object.keys(x)) if (k !== 'span' && k[0] !== '$') w(x[k])
  })(n)
  return c
}
function replaceMarkers (n, t, mk) {
  if (Array.isArray(n)) return n.map((x) => replaceMarkers(x, t, mk))
  if (!isObj(n)) return n
  if (n.type === '$GuardVar' && n.name === t) return mk()
  for (const k of Object.keys(n)) if (k !== 'span' && k[0] !== '$') n[k] = replaceMarkers(n[k], t, mk)
  return n
}

function plainArg (e) { return { spread: null, expression: e } }
function litEq (a, b) { a = unparen(a); b = unparen(b); return isObj(a) && isObj(b) && a.type === b.type && JSON.stringify(a.value) === JSON.stringify(b.value) }
function isLitSum (e) {
  e = unparen(e)
  if (!isObj(e)) return false
  if (/Literal$/.test(e.type) && e.type !== 'TemplateLiteral') return true
  return e.type === 'BinaryExpression' && e.operator === '+' && isLitSum(e.left) && isLitSum(e.right)
}
function simpleEq (a, b) {
  // a hole is matched by any spelling of undefined
  if (isObj(b) && b.type === '$Hole') return isObj(a) && ((a.type === 'Identifier' && a.value === 'undefined') || (a.type === 'UnaryExpression' && a.operator === 'void'))
  if (!isObj(a) || !isObj(b) || a.type !== b.type) return false
  if (a.type === 'Identifier') return a.value === b.value
  if (isLitSum(a) && isLitSum(b)) return JSON.stringify(stripSpans(a)) === JSON.stringify(stripSpans(b))
  return false
}
function stripSpans (n) {
  if (Array.isArray(n)) return n.map(stripSpans)
  if (!isObj(n)) return n
  const o = {}
  for (const k of Object.keys(n)) if (k !== 'span' && k !== 'ctxt' && k !== 'raw' && k[0] !== '$') o[k] = stripSpans(n[k])
  return o
}

// evaluation-order list of substituted temp sites of one sequence
function collectSites (n, seqId, out) {
  if (Array.isArray(n)) { n.forEach((x) => collectSites(x, seqId, out)); return }
  if (!isObj(n)) return
  // post-order: an expression's own value exists only after its sub-expressions were evaluated
  for (const k of evalOrderKeys(n)) collectSites(n[k], seqId, out)
  if (n.$fromTemp && n.$fromTemp.seq === seqId) out.push(n.$fromTemp)
}
function evalOrderKeys (n) {
  switch (n.type) {
    case 'BinaryExpression': return ['left', 'right']
    case 'CallExpression': return ['callee', 'arguments']
    case 'MemberExpression': return ['object', 'property']
    case 'ConditionalExpression': return ['test', 'consequent', 'alternate']
    case 'AssignmentExpression': return ['left', 'right']
    default: return Object.keys(n).filter((k) => k !== 'span' && k[0] !== '$')
  }
}

function summ (n) {
  n = unparen(n)
  if (!isObj(n)) return String(n)
  switch (n.type) {
    case 'Identifier': return n.value
    case 'StringLiteral': return JSON.stringify(n.value)
    case 'NumericLiteral': return String(n.value)
    case 'MemberExpression': return summ(n.object) + (n.property.type === 'Computed' ? '[' + summ(n.property.expression) + ']' : '.' + summ(n.property))
    case 'CallExpression': return summ(n.callee) + '(' + n.arguments.map((a) => (a.spread ? '...' : '') + summ(a.expression)).join(',') + ')'
    case 'BinaryExpression': return summ(n.left) + n.operator + summ(n.right)
    case 'ArrayExpression': return '[' + n.elements.map((a) => a ? (a.spread ? '...' : '') + summ(a.expression) : '').join(',') + ']'
    case 'TemplateLiteral': return '`…`'
    case 'ThisExpression': return 'this'
    case 'OptionalChainingExpression': return summ(n.base) + '?'
    case '$GuardVar': return n.name
    default: return '<' + n.type + '>'
  }
}

// ---------------------------------------------------------------------------------------------
// Normalisation (applied to both sides): parentheses dropped, optional-chain wrappers turned into
// per-node flags, `=> { return E }` == `=> E`, literal spelling ignored, spans kept under $span.
// ---------------------------------------------------------------------------------------------
const DROP_KEYS = new Set(['ctxt', 'raw', 'typeAnnotation', 'typeArguments', 'typeParameters', 'returnType', 'definite', 'declare', 'decorators', 'accessibility', 'isAbstract', 'isOverride', 'readonly', 'superTypeParams', 'implements'])

function norm (n) {
  if (Array.isArray(n)) return n.map(norm)
  if (!isObj(n)) return n
  if (n.type === 'ParenthesisExpression') { const r = norm(n.expression); if (isObj(r)) { r.$paren = true; for (const k of Object.keys(n)) if (k[0] === '$') r[k] = n[k] } return r }
  if (n.type === 'OptionalChainingExpression') {
    const b = norm(n.base)
    b.inChain = true
    b.optional = !!n.optional
    b.$ocSpan = n.span
    return b
  }
  const o = {}
  for (const k of Object.keys(n)) {
    if (DROP_KEYS.has(k)) continue
    const v = n[k]
    if (k === 'span') { o.$span = v; continue }
    if (k === 'questionDotToken') continue
    if (k[0] === '$') { o[k] = v; continue }
    if (k === 'spread' || k === 'rest') { if (isObj(v) && 'start' in v) { o[k] = true; continue } if (v === null) { o[k] = false; continue } }
    o[k] = norm(v)
  }
  if (o.type === 'ArrowFunctionExpression' && isObj(o.body) && o.body.type === 'BlockStatement' && o.body.stmts.length === 1 &&
      o.body.stmts[0].type === 'ReturnStatement' && o.body.stmts[0].argument) {
    o.body = o.body.stmts[0].argument
    o.$arrowBlockUndone = true
  }
  // cooked + raw both compared; a line terminator sequence <CR><LF> or <CR> inside a template IS <LF> in both its
  // value and its raw value (ECMA-262, TRV of LineTerminatorSequence), whatever the parser keeps in `raw`
  if (o.type === 'TemplateElement') { o.rawText = typeof n.raw === 'string' ? n.raw.replace(/\r\n?/g, '\n') : n.raw }
  if (o.type === 'RegExpLiteral') { o.pattern = n.pattern; o.flags = n.flags }
  // swc: a variable reference / binding (Ident) carries `optional`, a property name (IdentName) does not
  if (o.type === 'Identifier') o.$isRef = ('optional' in n)
  if (o.type === 'Identifier' && o.optional === false) delete o.optional
  if ((o.type === 'MemberExpression' || o.type === 'CallExpression') && !o.inChain) { delete o.optional; delete o.inChain }
  return o
}

function erase (astOut, prefix) {
  const E = new Eraser(prefix)
  const tree = E.er(astOut, null)
  const leftovers = []
  ;(function scan (n, path) {
    if (Array.isArray(n)) { n.forEach((x, i) => scan(x, path)); return }
    if (!isObj(n)) return
    if (n.type === '$GuardVar') leftovers.push('guard variable ' + n.name)
    if (n.type === 'Identifier' && typeof n.value === 'string' && n.value.startsWith(E.tp)) leftovers.push('temporary ' + n.value)
    for (const k of Object.keys(n)) if (k !== 'span' && k[0] !== '$') scan(n[k], path)
  })(tree, '')
  if (leftovers.length) E.problem('instrumentation-survives-erasure', 'leftover', 'after erasure the program still mentions ' + Array.from(new Set(leftovers)).slice(0, 4).join(', '))
  return { tree: norm(tree), problems: E.problems, hooks: E.hooks, lets: E.lets, prologue: E.prologue, guards: E.guards, guardRecs: E.guardRecs, tempPrefix: E.tp }
}

module.exports = { erase, norm, summ, isObj, isIdent, unparen, stripSpans, NS }
