'use strict'
// Static hygiene analysis of the injected temporaries on the RAW AST of the content (DESIGN §4 C06):
//  - every occurrence of a reserved-prefix identifier resolves to an injected `let` of an enclosing
//    BlockStatement with no function / arrow / method / class-field / parameter-scope boundary between
//  - no injected name is undeclared
//  - while a temporary is live (assigned in a sequence, still to be read by its tail) no nested
//    sequence evaluated in between assigns the same name
const { isObj } = require('./erase')

function scopeCheck (ast, prefix) {
  const tp = '__datadog_' + prefix + '_'
  const problems = []
  const isTemp = (n) => isObj(n) && n.type === 'Identifier' && typeof n.value === 'string' && n.value.startsWith(tp)
  const isInjectedLet = (s) => isObj(s) && s.type === 'VariableDeclaration' && s.kind === 'let' && s.declarations.length > 0 && s.declarations.every((d) => d.init === null && isTemp(d.id))
  const stack = []
  let uses = 0

  function resolve (id, how) {
    uses++
    const crossed = []
    for (let i = stack.length - 1; i >= 0; i--) {
      const f = stack[i]
      if (f.boundary) { crossed.push(f.boundary); continue }
      if (f.declared.has(id.value)) {
        if (crossed.length) problems.push({ rule: 'temp-crosses-activation', sig: crossed[0], detail: `temporary ${id.value} is ${how} inside a ${crossed[0]} but declared by the \`let\` of a block outside it (activations of that ${crossed[0]} share one variable)` })
        return
      }
    }
    problems.push({ rule: 'temp-undeclared', sig: crossed[0] || 'block', detail: `temporary ${id.value} is ${how} but no enclosing block declares it` })
  }

  function withBoundary (name, fn) { stack.push({ boundary: name }); fn(); stack.pop() }

  function walkFunctionLike (params, body, kind) {
    if (params) withBoundary(kind + '-param-default', () => walk(params))
    if (body) withBoundary(kind + '-body', () => walk(body))
  }

  function walk (n) {
    if (Array.isArray(n)) { n.forEach(walk); return }
    if (!isObj(n)) return
    switch (n.type) {
      case 'BlockStatement': {
        const declared = new Set()
        for (const s of n.stmts) if (isInjectedLet(s)) for (const d of s.declarations) { if (declared.has(d.id.value)) problems.push({ rule: 'temp-declared-twice', sig: 'let', detail: `${d.id.value} declared twice in one block` }); declared.add(d.id.value) }
        stack.push({ declared })
        // a `let` binding is in its temporal dead zone until the declaration has run: a statement placed BEFORE the
        // injected `let` of its block must not touch the names it declares
        let pending = new Set(declared)
        for (const s of n.stmts) {
          if (isInjectedLet(s)) { for (const d of s.declarations) pending.delete(d.id.value); continue }
          if (pending.size && s.type !== 'FunctionDeclaration') {
            const used = new Set()
            ;(function scan (x) { if (Array.isArray(x)) { x.forEach(scan); return } if (!isObj(x)) return; if (/Function|Method|Constructor|Getter|Setter/.test(x.type || '')) return; if (x.type === 'Identifier' && isTemp(x)) used.add(x.value); for (const k of Object.keys(x)) if (k !== 'span') scan(x[k]) })(s)
            for (const nm of used) if (pending.has(nm)) { problems.push({ rule: 'temp-used-before-declaration', sig: 'let-after-use', detail: `temporary ${nm} is used by a statement placed before the injected \`let\` of its block (temporal dead zone)` }); break }
          }
          walk(s)
        }
        stack.pop()
        return
      }
      case 'Identifier':
        if (isTemp(n)) resolve(n, 'used')
        return
      case 'FunctionDeclaration': case 'FunctionExpression':
        walk(n.identifier)
        walkFunctionLike(n.params, n.body, 'function')
        return
      case 'ArrowFunctionExpression':
        walkFunctionLike(n.params, n.body, 'arrow')
        return
      case 'ClassMethod': case 'PrivateMethod':
        walk(n.key)
        walkFunctionLike(n.function.params, n.function.body, 'method')
        return
      case 'Constructor':
        walkFunctionLike(n.params, n.body, 'constructor')
        return
      case 'MethodProperty':
        walk(n.key)
        walkFunctionLike(n.params, n.body, 'method')
        return
      case 'GetterProperty':
        walk(n.key)
        walkFunctionLike(null, n.body, 'getter')
        return
      case 'SetterProperty':
        walk(n.key)
        walkFunctionLike(n.param, n.body, 'setter')
        return
      case 'ClassProperty': case 'PrivateProperty':
        walk(n.key)
        // a static initialiser runs once, synchronously, inside the activation that evaluates the class: not a boundary
        if (n.value) { if (n.isStatic) walk(n.value); else withBoundary('class-field', () => walk(n.value)) }
        return
      case 'StaticBlock':
        withBoundary('static-block', () => walk(n.body))
        return
      case 'ParenthesisExpression':
        if (isObj(n.expression) && n.expression.type === 'SequenceExpression') clobberCheck(n.expression)
        break
      default:
    }
    for (const k of Object.keys(n)) if (k !== 'span') walk(n[k])
  }

  // names assigned inside `n`, not descending into nested function bodies
  function assignedTemps (n, out) {
    if (Array.isArray(n)) { n.forEach((x) => assignedTemps(x, out)); return }
    if (!isObj(n)) return
    if (/Function|Method|Constructor|GetterProperty|SetterProperty|ClassProperty|PrivateProperty|StaticBlock/.test(n.type || '')) return
    if (n.type === 'AssignmentExpression' && n.operator === '=' && isTemp(n.left)) out.push(n.left.value)
    for (const k of Object.keys(n)) if (k !== 'span') assignedTemps(n[k], out)
  }

  function clobberCheck (seq) {
    const xs = seq.expressions
    for (let j = 0; j < xs.length - 1; j++) {
      const a = xs[j]
      if (!(isObj(a) && a.type === 'AssignmentExpression' && a.operator === '=' && isTemp(a.left))) return
      const later = []
      for (let k = j + 1; k < xs.length; k++) assignedTemps(xs[k].type === 'AssignmentExpression' && k < xs.length - 1 ? xs[k].right : xs[k], later)
      // the following elements' OWN left-hand sides are other temporaries of this sequence; only nested assignments count
      if (later.includes(a.left.value)) problems.push({ rule: 'temp-clobbered', sig: 'nested-sequence', detail: `temporary ${a.left.value} is assigned again by a nested expression before the hook that reads it runs` })
      // sibling temporaries must have distinct names
      for (let k = j + 1; k < xs.length - 1; k++) if (isObj(xs[k]) && xs[k].type === 'AssignmentExpression' && isTemp(xs[k].left) && xs[k].left.value === a.left.value) problems.push({ rule: 'temp-clobbered', sig: 'sibling', detail: `temporary ${a.left.value} assigned twice in one sequence` })
    }
  }

  walk(ast.body)
  // user-visible check for `(t = obj).p = RHS` targets: t must not be re-assigned inside RHS
  ;(function w (n) {
    if (Array.isArray(n)) { n.forEach(w); return }
    if (!isObj(n)) return
    if (n.type === 'AssignmentExpression' && isObj(n.left) && n.left.type === 'MemberExpression') {
      const names = []
      const collectInline = (e) => { while (isObj(e) && e.type === 'ParenthesisExpression') e = e.expression; if (isObj(e) && e.type === 'AssignmentExpression' && e.operator === '=' && isTemp(e.left)) names.push(e.left.value) }
      collectInline(n.left.object)
      if (n.left.property.type === 'Computed') collectInline(n.left.property.expression)
      if (names.length) {
        const later = []
        // assignments nested deeper than the top-level sequence of the right side
        let rhs = n.right
        while (isObj(rhs) && rhs.type === 'ParenthesisExpression') rhs = rhs.expression
        if (isObj(rhs) && rhs.type === 'SequenceExpression') { for (const x of rhs.expressions) { if (x.type === 'AssignmentExpression' && isTemp(x.left)) { if (names.includes(x.left.value)) later.push(x.left.value); assignedTemps(x.right, later) } else assignedTemps(x, later) } } else assignedTemps(rhs, later)
        for (const nm of names) if (later.includes(nm)) problems.push({ rule: 'temp-clobbered', sig: 'assignment-target', detail: `temporary ${nm} holding the object/key of an assignment target is reassigned while the right side is evaluated` })
      }
    }
    for (const k of Object.keys(n)) if (k !== 'span') w(n[k])
  })(ast.body)
  return { problems, uses }
}

module.exports = { scopeCheck }
