'use strict'
// Compile (never run) a text with V8 the way Node would load it: ES module => vm.SourceTextModule,
// otherwise the CommonJS function wrapper (admits top-level `return`). A leading hashbang is blanked
// out exactly as Node's loader does.
const vm = require('vm')
const CJS_PARAMS = ['exports', 'require', 'module', '__filename', '__dirname']
function stripShebang (code) { return code.startsWith('#!') ? '//' + code.slice(2) : code }
function v8compile (code, kind) {
  try {
    if (kind === 'module') new vm.SourceTextModule(stripShebang(code), { identifier: 'm.mjs' }) // eslint-disable-line no-new
    else vm.compileFunction(stripShebang(code), CJS_PARAMS, { filename: 'f.js' })
    return { ok: true }
  } catch (e) { return { ok: false, error: (e && e.name) + ': ' + String(e && e.message).slice(0, 160) } }
}
function trailerInfo (content) {
  const lines = content.split('\n')
  const idx = []
  lines.forEach((l, i) => { if (/^\s*\/\/[#@]\s*sourceMappingURL=/.test(l)) idx.push(i) })
  let last = lines.length - 1
  while (last >= 0 && lines[last].trim() === '') last--
  const out = { count: idx.length, isLast: idx.length > 0 && idx[idx.length - 1] === last, lastLine: last >= 0 ? lines[last] : '' }
  const m = /^\/\/# sourceMappingURL=data:application\/json;base64,([A-Za-z0-9+/=]*)$/.exec(out.lastLine)
  if (m) { try { out.map = JSON.parse(Buffer.from(m[1], 'base64').toString('utf8')) } catch (e) { out.mapError = e.message } }
  return out
}
module.exports = { v8compile, trailerInfo, stripShebang }
