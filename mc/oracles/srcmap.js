'use strict'
// Independent source-map machinery (DESIGN §3.3): base64-VLQ codec, greatest-lower-bound lookup,
// two-step composition. Shares nothing with swc's `sourcemap` crate or js/source-map/node_source_map.js.
const B64 = 'ABCDEFGHIJKLMNOPQRSTUVWXYZabcdefghijklmnopqrstuvwxyz0123456789+/'
const B64V = new Map(Array.from(B64).map((c, i) => [c, i]))

function decodeVlqSegment (s) {
  const out = []
  let shift = 0; let value = 0
  for (const ch of s) {
    const d = B64V.get(ch)
    if (d === undefined) throw new Error('bad base64 char ' + JSON.stringify(ch))
    value += (d & 31) * Math.pow(2, shift)
    if (d & 32) shift += 5
    else { const neg = value % 2 === 1; const v = Math.floor(value / 2); out.push(neg ? -v : v); shift = 0; value = 0 }
  }
  if (shift !== 0) throw new Error('truncated VLQ')
  return out
}
function encodeVlq (n) {
  let v = n < 0 ? (-n * 2) + 1 : n * 2
  let s = ''
  do { let d = v % 32; v = Math.floor(v / 32); if (v > 0) d |= 32; s += B64[d] } while (v > 0)
  return s
}

// -> { segments: [{gl, gc, src, ol, oc, name}] sorted by (gl, gc), byLine: Map gl -> [segments] }
function decodeMap (map) {
  if (typeof map === 'string') map = JSON.parse(map)
  const segs = []
  let src = 0; let ol = 0; let oc = 0; let nm = 0
  const lines = String(map.mappings).split(';')
  lines.forEach((line, gl) => {
    let gc = 0
    if (!line) return
    for (const part of line.split(',')) {
      if (!part) continue
      const f = decodeVlqSegment(part)
      gc += f[0]
      const seg = { gl, gc }
      if (f.length >= 4) { src += f[1]; ol += f[2]; oc += f[3]; seg.src = src; seg.ol = ol; seg.oc = oc }
      if (f.length >= 5) { nm += f[4]; seg.name = nm }
      if (f.length !== 1 && f.length !== 4 && f.length !== 5) throw new Error('segment with ' + f.length + ' fields')
      segs.push(seg)
    }
  })
  segs.sort((a, b) => a.gl - b.gl || a.gc - b.gc)
  return { map, segments: segs }
}

function encodeMap ({ sources, names, segments, file, sourceRoot, sourcesContent }) {
  const lines = []
  let src = 0; let ol = 0; let oc = 0; let nm = 0
  const sorted = segments.slice().sort((a, b) => a.gl - b.gl || a.gc - b.gc)
  for (const s of sorted) {
    while (lines.length <= s.gl) lines.push({ gc: 0, parts: [] })
    const L = lines[s.gl]
    let str = encodeVlq(s.gc - L.gc); L.gc = s.gc
    if (s.src !== undefined) { str += encodeVlq(s.src - src) + encodeVlq(s.ol - ol) + encodeVlq(s.oc - oc); src = s.src; ol = s.ol; oc = s.oc; if (s.name !== undefined) { str += encodeVlq(s.name - nm); nm = s.name } }
    L.parts.push(str)
  }
  const m = { version: 3, sources, names: names || [], mappings: lines.map((l) => l.parts.join(',')).join(';') }
  if (file !== undefined) m.file = file
  if (sourceRoot !== undefined) m.sourceRoot = sourceRoot
  if (sourcesContent !== undefined) m.sourcesContent = sourcesContent
  return m
}

// greatest lower bound over the whole file (previous line's last segment if the line has none before the column)
function lookup (decoded, gl, gc) {
  const segs = decoded.segments
  let lo = 0; let hi = segs.length - 1; let best = -1
  while (lo <= hi) {
    const mid = (lo + hi) >> 1
    const s = segs[mid]
    if (s.gl < gl || (s.gl === gl && s.gc <= gc)) { best = mid; lo = mid + 1 } else hi = mid - 1
  }
  return best < 0 ? null : segs[best]
}
// greatest lower bound restricted to the same generated line (what some consumers do)
function lookupLine (decoded, gl, gc) {
  const s = lookup(decoded, gl, gc)
  return s && s.gl === gl ? s : null
}

// text position helpers: byte offset -> {line, col(utf16 units)} (lines split on \n; \r stays in the line)
class TextIndex {
  constructor (text) {
    this.text = text
    this.buf = Buffer.from(text, 'utf8')
    this.lineStartByte = [0]
    for (let i = 0; i < this.buf.length; i++) if (this.buf[i] === 10) this.lineStartByte.push(i + 1)
    this.lines = text.split('\n')
  }

  fromByte (off) {
    let lo = 0; let hi = this.lineStartByte.length - 1
    while (lo < hi) { const mid = (lo + hi + 1) >> 1; if (this.lineStartByte[mid] <= off) lo = mid; else hi = mid - 1 }
    const col = this.buf.slice(this.lineStartByte[lo], off).toString('utf8').length
    return { line: lo, col }
  }

  inside (line, col) { return line >= 0 && line < this.lines.length && col >= 0 && col <= this.lines[line].length }
  at (line, col, n) { return (this.lines[line] || '').slice(col, col + n) }
}

function resolveSource (map, idx) {
  const s = map.sources[idx]
  if (s == null) return null
  const root = map.sourceRoot
  if (!root) return s
  if (s.startsWith('/') || /^[a-z]+:/i.test(s)) return s
  return root.replace(/\/$/, '') + '/' + s
}

module.exports = { decodeVlqSegment, encodeVlq, decodeMap, encodeMap, lookup, lookupLine, TextIndex, resolveSource }
