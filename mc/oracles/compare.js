'use strict'
// Lock-step comparison of normalise(AST(input)) with the annotated erasure of AST(content), and the
// requirement function must(node, ancestors, config) of DESIGN §3.4 (written from the property text).
const { isObj, isIdent, summ } = require('./erase')

const LITERAL_CALLER_METHODS = new Set(['concat', 'replace', 'replaceAll', 'padStart', 'padEnd', 'repeat'])

// ---- configuration semantics, derived from the raw config JSON (not from the implementation) ----
function configModel (config) {
  const ms = (config && Array.isArray(config.csiMethods)) ? config.csiMethods : []
  const plus = ms.find((m) => m.operator === true && m.src === 'plusOperator')
  const tpl = ms.find((m) => m.operator === true && m.src === 'tplOperator')
  const methods = new Map()
  for (const m of ms) if (!m.operator && !methods.has(m.src)) methods.set(m.src, { dst: m.dst === undefined || m.dst === null ? m.src : m.dst, alone: !!m.allowedWithoutCallee })
  const names = new Set(ms.map((m) => (m.dst === undefined || m.dst === null ? m.src : m.dst)))
  return { plus: plus ? (plus.dst == null ? plus.src : plus.dst) : null, tpl: tpl ? (tpl.dst == null ? tpl.src : tpl.dst) : null, methods, names }
}

// ---- structural comparison -----------------------------------------------------------------------
function cmpTrees (a, b, out) {
  out.mismatches = out.mismatches || []
  walk(a, b, 'program', out, [])
  return out
}

function kindOf (v) { return Array.isArray(v) ? 'array' : v === null ? 'null' : typeof v }

function walk (a, b, path, out, anc) {
  if (out.mismatches.length > 6) return
  const ka = kindOf(a); const kb = kindOf(b)
  if (ka !== kb) { out.mismatches.push({ path, why: `kind ${ka} vs ${kb}`, a: brief(a), b: brief(b), anc: ancTypes(anc) }); return }
  if (ka === 'array') {
    if (a.length !== b.length) { out.mismatches.push({ path, why: `length ${a.length} vs ${b.length}`, a: brief(a), b: brief(b), anc: ancTypes(anc) }); return }
    for (let i = 0; i < a.length; i++) walk(a[i], b[i], path + '[' + i + ']', out, anc)
    return
  }
  if (ka !== 'object') {
    if (a !== b && !(Number.isNaN(a) && Number.isNaN(b))) out.mismatches.push({ path, why: 'value', a: brief(a), b: brief(b), anc: ancTypes(anc) })
    return
  }
  // objects
  if (b.$hook) a.$hooked = b.$hook
  if (b.$guard) a.$guarded = b.$guard
  a.$out = b
  // rule 4: `T += R` on the input side vs `T = hook(T + R, ...)` on the output side
  if (a.type === 'AssignmentExpression' && a.operator === '+=' && b.type === 'AssignmentExpression' && b.operator === '=' &&
      isObj(b.right) && b.right.type === 'BinaryExpression' && b.right.operator === '+' && b.right.$hook) {
    a.$hooked = b.right.$hook
    a.$plusAssignLowered = true
    const n0 = out.mismatches.length
    walk(a.left, b.left, path + '.left', out, anc.concat([a]))
    walk(a.left, b.right.left, path + '.left(reread)', out, anc.concat([a]))
    walk(a.right, b.right.right, path + '.right', out, anc.concat([a]))
    if (out.mismatches.length === n0) {
      const dup = duplicatedTargetPart(b.right.left)
      if (dup) (out.duplicated = out.duplicated || []).push({ path, target: summ(a.left), part: dup })
    }
    return
  }
  // the operand of `delete` must stay a reference: a lowered optional chain is a value
  if (a.type === 'UnaryExpression' && a.operator === 'delete' && b.type === 'UnaryExpression' && isObj(b.argument) && b.argument.$guard) {
    out.mismatches.push({ path, why: 'operand of delete replaced by the guarded value form of its optional chain', a: brief(a), b: brief(b), anc: ancTypes(anc) })
    return
  }
  if (a.type !== b.type) { out.mismatches.push({ path, why: `node type ${a.type} vs ${b.type}`, a: brief(a), b: brief(b), anc: ancTypes(anc) }); return }
  const keys = new Set()
  for (const k of Object.keys(a)) if (k[0] !== '$') keys.add(k)
  for (const k of Object.keys(b)) if (k[0] !== '$') keys.add(k)
  const anc2 = anc.concat([a])
  for (const k of keys) {
    let va = a[k]; let vb = b[k]
    if (va === undefined) va = defaultFor(k)
    if (vb === undefined) vb = defaultFor(k)
    walk(va, vb, path + '.' + k, out, anc2)
  }
}
function defaultFor (k) { return (k === 'optional' || k === 'inChain') ? false : undefined }
function ancTypes (anc) { return anc.slice(-4).map((x) => x.type).join('>') }
function brief (x) { if (isObj(x)) return x.type + ':' + summ(x).slice(0, 80); if (Array.isArray(x)) return '[' + x.length + ']'; return JSON.stringify(x) }

// which part of an assignment target would be evaluated twice by `T = T + R` (null = re-readable)
function duplicatedTargetPart (t) {
  if (!isObj(t)) return null
  if (t.type === 'Identifier' || t.type === 'ThisExpression') return null
  if (t.type === 'MemberExpression') {
    // re-reading an identifier, `this`, a literal or a temporary assigned in the target ($reread) is unobservable
    const o = t.object
    const okObj = isObj(o) && (o.type === 'Identifier' || o.type === 'ThisExpression' || o.$reread)
    if (!okObj) return 'object:' + o.type
    if (t.property.type === 'Computed') {
      const e = t.property.expression
      if (!(isObj(e) && (e.type === 'Identifier' || /Literal$/.test(e.type) || e.$reread))) return 'key:' + e.type
    }
    return null
  }
  if (t.type === 'SuperPropExpression') {
    // `super` itself is not evaluated; only a computed key can be
    if (isObj(t.property) && t.property.type === 'Computed') {
      const e = t.property.expression
      if (!(isObj(e) && (e.type === 'Identifier' || /Literal$/.test(e.type) || e.$reread))) return 'key:' + e.type
    }
    return null
  }
  return 'target:' + t.type
}

// ---- requirement function ------------------------------------------------------------------------
function isLit (n) { return isObj(n) && /Literal$/.test(n.type) && n.type !== 'TemplateLiteral' }
function litOnlyPlus (n) { return isObj(n) && n.type === 'BinaryExpression' && n.operator === '+' && litish(n.left) && litish(n.right) }
function litish (n) { return isLit(n) || litOnlyPlus(n) }
function ambiguousLit (n) { return isObj(n) && n.type === 'TemplateLiteral' && n.expressions.length === 0 }

function receiverKindOk (r) {
  if (!isObj(r)) return false
  if (r.$paren) return true
  if (r.type === 'Identifier' || r.type === 'CallExpression' || r.type === 'ArrayExpression') return true
  if (r.type === 'MemberExpression') return !(r.property.type === 'Identifier' && r.property.value === 'prototype')
  return false
}

// positions: walk the input tree with ancestors, classify every candidate operation
function requirements (tree, cm) {
  const out = []
  ;(function w (n, anc) {
    if (Array.isArray(n)) { n.forEach((x) => w(x, anc)); return }
    if (!isObj(n)) return
    const c = classify(n, anc, cm)
    if (c) out.push(c)
    const a2 = anc.concat([{ node: n }])
    for (const k of Object.keys(n)) {
      if (k[0] === '$') continue
      const v = n[k]
      if (typeof v === 'object' && v !== null) { a2[a2.length - 1].key = k; w(v, a2) }
    }
  })(tree, [])
  return out
}

function position (anc) {
  // returns {inBlock, excluded: reason|null}
  let inBlock = false
  let excluded = null
  for (let i = 0; i < anc.length; i++) {
    const { node, key } = anc[i]
    if (node.type === 'BlockStatement') inBlock = true
    if (node.type === 'UnaryExpression' && node.operator === 'delete') excluded = excluded || 'delete-operand'
    if (node.type === 'ArrowFunctionExpression' && key === 'params') excluded = excluded || 'arrow-param-default'
    if ((node.type === 'FunctionDeclaration' || node.type === 'FunctionExpression' || node.type === 'ClassMethod' || node.type === 'MethodProperty' ||
         node.type === 'Constructor' || node.type === 'SetterProperty' || node.type === 'PrivateMethod') && (key === 'params' || key === 'param')) excluded = excluded || 'param-default'
    if (node.type === 'TemplateLiteral' && node.expressions.some(isLit)) excluded = excluded || 'template-with-literal-substitution'
    if (node.type === 'TaggedTemplateExpression' && key === 'template' && node.template.expressions.some(isLit)) excluded = excluded || 'template-with-literal-substitution'
  }
  return { inBlock, excluded }
}

function classify (n, anc, cm) {
  let kind = null; let must = 'DONTCARE'; let expected = null; let why = ''
  if (n.type === 'BinaryExpression' && n.operator === '+') {
    kind = 'plus'; expected = cm.plus
    if (!cm.plus) { must = 'FORBIDDEN'; why = 'plus operator not enabled' } else if (litish(n.left) && litish(n.right)) { must = 'DONTCARE'; why = 'all-literal' } else if ((litish(n.left) || ambiguousLit(n.left)) && (litish(n.right) || ambiguousLit(n.right))) { must = 'DONTCARE'; why = 'literal-ish operands' } else must = 'REQUIRED'
  } else if (n.type === 'AssignmentExpression' && n.operator === '+=') {
    kind = 'plusassign'; expected = cm.plus
    if (!cm.plus) { must = 'FORBIDDEN'; why = 'plus operator not enabled' } else if (isObj(n.left) && (n.left.type === 'Identifier' || n.left.type === 'MemberExpression') && !n.left.inChain) must = 'REQUIRED'
    else { must = 'DONTCARE'; why = 'exotic target' }
  } else if (n.type === 'TemplateLiteral') {
    const parent = anc.length ? anc[anc.length - 1].node : null
    if (parent && parent.type === 'TaggedTemplateExpression') return null
    if (n.expressions.length === 0) return null
    kind = 'tpl'; expected = cm.tpl
    if (!cm.tpl) { must = 'FORBIDDEN'; why = 'template operator not enabled' } else if (n.expressions.some(isLit)) { must = 'DONTCARE'; why = 'literal substitution' } else must = 'REQUIRED'
  } else if (n.type === 'CallExpression') {
    const callee = n.callee
    if (!isObj(callee)) return null
    if (callee.type === 'Identifier') {
      kind = 'bare'
      const m = cm.methods.get(callee.value)
      if (!m || !m.alone) { must = 'FORBIDDEN'; why = 'bare call not allowed without callee' } else { must = 'DONTCARE'; expected = m.dst; why = 'allowed bare call' }
      if (!m) { must = 'FORBIDDEN' }
    } else if (callee.type === 'MemberExpression' && callee.property.type === 'Identifier') {
      const name = callee.property.value
      const obj = callee.object
      if ((name === 'call' || name === 'apply') && isObj(obj) && obj.type === 'MemberExpression' && obj.property.type === 'Identifier' && !cm.methods.has(name)) {
        // P.m.call(T, ...) / P.m.apply(T, [...])
        kind = 'proto'
        const m = cm.methods.get(obj.property.value)
        if (!m) { must = 'FORBIDDEN'; why = 'method not configured' } else {
          expected = m.dst
          const P = obj.object
          const isProtoPath = isObj(P) && P.type === 'MemberExpression' && P.property.type === 'Identifier' && P.property.value === 'prototype' && isObj(P.object) && P.object.type === 'Identifier' && !P.inChain && !obj.inChain && !callee.inChain && !n.inChain
          const args = n.arguments
          must = 'DONTCARE'; why = 'prototype-call shape outside the documented one'
          if (isProtoPath && args.length >= 1 && !args[0].spread) {
            const T = args[0].expression
            let shapeOk = true
            if (name === 'apply') {
              shapeOk = args.length === 2 && !args[1].spread && isObj(args[1].expression) && args[1].expression.type === 'ArrayExpression' && !args[1].expression.$paren && args[1].expression.elements.every((e) => e !== null)
            }
            if (shapeOk) {
              const callArgs = name === 'apply' ? args[1].expression.elements : args.slice(1)
              if (receiverKindOk(T)) must = 'REQUIRED'
              else if (isObj(T) && T.type === 'StringLiteral' && LITERAL_CALLER_METHODS.has(obj.property.value) && !callArgs.every((a) => isLit(a.expression) || isIdent(a.expression, 'undefined') || isIdent(a.expression, 'null'))) must = 'REQUIRED'
            }
          }
        }
      } else {
        kind = 'method'
        const m = cm.methods.get(name)
        if (!m) { must = 'FORBIDDEN'; why = 'method not configured' } else {
          expected = m.dst
          must = 'DONTCARE'
          if (n.inChain && n.optional) why = 'optional invocation'
          else if (receiverKindOk(obj)) must = 'REQUIRED'
          else if (isObj(obj) && obj.type === 'StringLiteral' && LITERAL_CALLER_METHODS.has(name)) must = 'REQUIRED'
          else why = 'receiver kind ' + (obj && obj.type)
        }
      }
    } else return null
  } else return null
  const pos = position(anc)
  if (must === 'REQUIRED') {
    if (!pos.inBlock) { must = 'DONTCARE'; why = 'outside any block' } else if (pos.excluded) { must = 'DONTCARE'; why = pos.excluded }
  }
  return { node: n, kind, must, expected, why, hooked: n.$hooked || null, anc: anc.slice(-5).map((x) => x.node.type + '.' + x.key).join('>'), pos }
}

module.exports = { cmpTrees, requirements, configModel, duplicatedTargetPart, LITERAL_CALLER_METHODS }
