#!/usr/bin/env node
'use strict'
// Master: `node mc/run.js <Cxx> --tier quick|thorough [--replay file] [--workers N]`
// exit 0 = property held on everything explored (known findings are printed, not failed)
// exit 1 = VIOLATION line(s) printed
// exit 2 = machinery failure (never a verdict)
const fs = require('fs')
const path = require('path')
const os = require('os')
const crypto = require('crypto')
const { fork } = require('child_process')

const ROOT = path.join(__dirname, '..')

function sha (s) { return crypto.createHash('sha1').update(s).digest('hex').slice(0, 12) }

function loadKnown () {
  const f = path.join(ROOT, 'known-findings.json')
  if (!fs.existsSync(f)) return []
  return JSON.parse(fs.readFileSync(f, 'utf8')).findings || []
}

function classify (prop, v, known) {
  for (const e of known) {
    if (e.property !== prop || e.status !== 'open' || !new RegExp('^(?:' + e.rule + ')$').test(v.rule)) continue
    if (new RegExp(e.sig).test(v.sig)) return e
  }
  return null
}

async function runWorkers (driverFile, tier, W, seed, heapMB) {
  const results = await Promise.all(Array.from({ length: W }, (_, w) => new Promise((resolve, reject) => {
    const child = fork(path.join(__dirname, 'lib', 'worker.js'), [driverFile, tier, String(w), String(W), String(seed)], {
      execArgv: ['--stack-size=4000', '--max-old-space-size=' + (heapMB || process.env.VERIF_WORKER_HEAP_MB || 3000), '--experimental-vm-modules', '--no-warnings']
    })
    let got = null
    child.on('message', (m) => { got = m })
    child.on('exit', (code, sig) => {
      if (got && !got.machineryError) resolve(got)
      else reject(new Error('worker ' + w + ' failed: ' + (got ? got.machineryError : 'exit ' + code + ' ' + sig)))
    })
  })))
  return results
}

async function replay (driver, file) {
  const { Service } = require('./lib/iastmc')
  const rep = JSON.parse(fs.readFileSync(file, 'utf8'))
  const obs = []
  for (let round = 0; round < 2; round++) {
    const service = new Service({ timeoutMs: driver.timeoutMs || 20000 })
    const ctx = { tier: rep.tier || 'quick', seed: 0, service, replay: true }
    if (driver.prepareReplay) await driver.prepareReplay(ctx)
    const reqs = driver.requests ? driver.requests(rep.leaf, ctx) : []
    const resps = await Promise.all(reqs.map((r) => service.send(r)))
    const res = await driver.check(rep.leaf, resps, ctx)
    service.close()
    obs.push((res.violations || []).map((v) => v.rule + '|' + v.sig).sort())
  }
  if (JSON.stringify(obs[0]) !== JSON.stringify(obs[1])) {
    console.log('MACHINERY: replay is not deterministic', JSON.stringify(obs))
    process.exit(2)
  }
  const want = rep.violation.rule + '|' + rep.violation.sig
  if (obs[0].includes(want)) {
    console.log(`replay reproduces ${want}`)
    console.log(`VIOLATION property=${driver.id} replay=${file}`)
    process.exit(1)
  }
  console.log(`replay does not reproduce ${want}; observed: ${JSON.stringify(obs[0])}`)
  process.exit(0)
}

async function main () {
  const args = process.argv.slice(2)
  const id = args[0]
  let tier = process.env.VERIF_TIER || 'quick'
  let replayFile = null
  let W = Number(process.env.VERIF_WORKERS) || Math.min(16, os.cpus().length)
  for (let i = 1; i < args.length; i++) {
    if (args[i] === '--tier') tier = args[++i]
    else if (args[i] === '--replay') replayFile = args[++i]
    else if (args[i] === '--workers') W = Number(args[++i])
  }
  const seed = Number(process.env.VERIF_SEED || 0) | 0
  const driverFile = path.join(__dirname, 'drivers', id + '.js')
  if (!fs.existsSync(driverFile)) { console.log('MACHINERY: no driver for ' + id); process.exit(2) }
  const driver = require(driverFile)
  if (replayFile) return replay(driver, replayFile)

  const t0 = Date.now()
  // master builds the space once to get the exploration counts (workers re-derive the same list)
  const built = await driver.build(tier, { tier, seed, master: true })
  if (driver.workers) W = Math.min(W, driver.workers)
  // every worker derives the whole leaf list before it takes its share: the drivers whose thorough list is several
  // million leaves run fewer workers with a larger heap (peak memory = workers x list size)
  let heapMB = null
  if (tier === 'thorough' && driver.thoroughWorkers) { W = Math.min(W, driver.thoroughWorkers); heapMB = driver.thoroughHeapMB || null }
  W = Math.max(1, Math.min(W, built.leaves.length))
  const results = await runWorkers(driverFile, tier, W, seed, heapMB)

  const known = loadKnown()
  let evaluations = 0
  const nontrivial = new Set()
  const outcomes = {}
  const notes = {}
  const samples = []
  let violationCount = 0
  let restarts = 0
  const bySig = new Map()
  for (const r of results) {
    evaluations += r.evaluations
    restarts += r.restarts
    violationCount += r.violationCount
    for (const x of r.nontrivialHashes) nontrivial.add(x)
    for (const k of Object.keys(r.outcomes)) outcomes[k] = (outcomes[k] || 0) + r.outcomes[k]
    for (const k of Object.keys(r.notes)) notes[k] = (notes[k] || 0) + r.notes[k]
    for (const s of r.samples) if (samples.length < 4) samples.push(s)
    for (const v of r.violations) {
      const key = v.rule + '|' + v.sig
      if (!bySig.has(key) || bySig.get(key).leafIndex > v.leafIndex) bySig.set(key, v)
    }
  }
  const knownHit = new Map()
  const fresh = []
  const sigs = Array.from(bySig.values()).sort((a, b) => a.leafIndex - b.leafIndex)
  for (const v of sigs) {
    const e = classify(driver.id, v, known)
    if (e) { if (!knownHit.has(e.id)) knownHit.set(e.id, { e, n: 0 }); knownHit.get(e.id).n++ } else fresh.push(v)
  }
  for (const { e } of knownHit.values()) console.log(`KNOWN-FINDING: property=${driver.id} [${e.id}] ${e.text}`)
  if (process.env.VERIF_DUMP) fs.writeFileSync(process.env.VERIF_DUMP, fresh.map((v) => JSON.stringify({ rule: v.rule, sig: v.sig, detail: v.detail })).join('\n'))
  const repDir = path.join(process.env.VERIF_REPLAY_DIR || path.join(ROOT, 'replays'), driver.id)
  let printed = 0
  for (const v of fresh) {
    if (printed >= 20) break
    fs.mkdirSync(repDir, { recursive: true })
    const file = path.join(repDir, sha(v.rule + '|' + v.sig) + '.json')
    fs.writeFileSync(file, JSON.stringify({ property: driver.id, tier, violation: { rule: v.rule, sig: v.sig, detail: v.detail }, leaf: v.leaf }, null, 1))
    console.log(`  rule=${v.rule} sig=${v.sig}\n  detail=${String(v.detail).slice(0, 600)}`)
    console.log(`VIOLATION property=${driver.id} replay=${file}`)
    printed++
  }
  const wall = (Date.now() - t0) / 1000
  const stats = built.stats
  const evidence = {
    property_id: driver.id,
    tier,
    seed,
    level: 'model_checking',
    coverage: {
      states: stats.states,
      transitions: stats.transitions,
      traces_validated_against_impl: evaluations,
      evaluations,
      distinct_nontrivial: nontrivial.size,
      rule: driver.rule,
      samples: samples.length ? samples : [built.leaves[0]],
      exhaustive: built.exhaustive !== false && !outcomes.skipped_after_hangs,
      capped_after_hangs: outcomes.skipped_after_hangs || 0,
      bound: built.bound,
      alphabets: built.alphabets,
      leaves: built.leaves.length,
      exploration: stats,
      distinct_outcomes: Object.keys(outcomes).length,
      outcomes,
      notes,
      service_restarts: restarts,
      known_findings_matched: Array.from(knownHit.values()).map(({ e, n }) => ({ id: e.id, distinct_sigs: n })),
      distinct_violation_sigs: bySig.size,
      explanation: driver.explanation
    },
    assumptions: driver.assumptions || [],
    wall_s: wall,
    violations: fresh.length
  }
  // (the seeding tools point these two directories elsewhere: a run on a seeded tree says nothing about /repo)
  const evDir = process.env.VERIF_EVIDENCE_DIR || path.join(ROOT, 'evidence')
  fs.mkdirSync(evDir, { recursive: true })
  fs.writeFileSync(path.join(evDir, driver.id + '.json'), JSON.stringify(evidence, null, 1))
  console.log(`${driver.id} tier=${tier} leaves=${built.leaves.length} states=${stats.states} transitions=${stats.transitions} evaluations=${evaluations} nontrivial=${nontrivial.size} outcomes=${JSON.stringify(outcomes)} violations(new)=${fresh.length} known=${knownHit.size} raw_violations=${violationCount} wall=${wall.toFixed(1)}s`)
  if (outcomes.skipped_after_hangs && !fresh.length) { console.log('MACHINERY: exploration was cut short after repeated hangs but no violation was reported'); process.exit(2) }
  process.exit(fresh.length ? 1 : 0)
}

main().catch((e) => { console.log('MACHINERY: ' + (e && e.stack || e)); process.exit(2) })
