// Binds the harness to the CURRENT working tree of the repository: every non-test module declared in
// <repo>/src/lib.rs is compiled into this crate by `#[path]`, so any edit under <repo>/src triggers a
// rebuild (cargo tracks the files through dep-info). Also turns the verification hooks on for this
// crate only (no RUSTFLAGS => dependencies are not rebuilt).
use std::{env, fs, path::PathBuf};

fn main() {
    let repo = env::var("VERIF_REPO").unwrap_or_else(|_| "/repo".to_string());
    println!("cargo:rerun-if-env-changed=VERIF_REPO");
    let lib = format!("{repo}/src/lib.rs");
    println!("cargo:rerun-if-changed={lib}");
    println!("cargo:rerun-if-changed={repo}/tracer_logger.js");
    let text = fs::read_to_string(&lib).expect("read lib.rs");
    let mut out = String::new();
    let mut skip_next = false;
    for line in text.lines() {
        let t = line.trim();
        if t.starts_with("#[cfg(test)]") || t.starts_with("#[cfg(feature = \"napi\")]") {
            skip_next = true;
            continue;
        }
        if t.starts_with("#[") {
            // other attributes (e.g. cfg(not(feature = "napi")), macro_use): the attribute itself is dropped,
            // a following `mod` is kept, a following `extern crate` is dropped below
            continue;
        }
        if let Some(rest) = t.strip_prefix("mod ") {
            if skip_next {
                skip_next = false;
                continue;
            }
            let name = rest.trim_end_matches(';').trim();
            let file = if PathBuf::from(format!("{repo}/src/{name}.rs")).exists() {
                format!("{repo}/src/{name}.rs")
            } else {
                format!("{repo}/src/{name}/mod.rs")
            };
            out.push_str(&format!("#[path = \"{file}\"]\npub mod {name};\n"));
        } else if t.starts_with("extern crate") {
            skip_next = false;
        }
    }
    let out_dir = PathBuf::from(env::var("OUT_DIR").unwrap());
    fs::write(out_dir.join("repo_mods.rs"), out).unwrap();
    // wasm_bindgen(module = "/tracer_logger.js") is resolved against CARGO_MANIFEST_DIR
    let manifest = PathBuf::from(env::var("CARGO_MANIFEST_DIR").unwrap());
    let _ = fs::copy(format!("{repo}/tracer_logger.js"), manifest.join("tracer_logger.js"));
    println!("cargo:rustc-cfg=dd_iast_rewriter_verif");
    println!("cargo:rustc-env=VERIF_REPO_BUILT={repo}");
}
