// iastmc — native driver around the *real* rewriter sources of the repository (compiled in through
// build.rs / #[path]). It is a JSONL service: one request per line on stdin, one response per line
// on stdout. All exploration logic lives in /verif/mc (Node); this binary only executes leaves.
#![allow(dead_code, unused_imports, clippy::all)]

include!(concat!(env!("OUT_DIR"), "/repo_mods.rs"));

use base64::{engine::general_purpose::STANDARD, Engine as _};
use serde_json::{json, Map, Value};
use std::{
    cell::RefCell,
    collections::HashMap,
    io::{self, BufRead, Cursor, Write},
    panic::{self, AssertUnwindSafe},
    path::{Path, PathBuf},
    sync::{
        atomic::{AtomicU64, Ordering},
        Arc, Mutex,
    },
    time::{Duration, Instant},
};

use crate::lib_wasm::{verif_hooks, RewriterConfig};
use crate::rewriter::Config;
use crate::util::FileReader;

// ---------------------------------------------------------------------------------------------
// In-memory FileReader: every `read` is a choice point decided by the request's `vfs` table.
// `parent` is NOT overridden in "trait" mode (the repo's default implementation is exercised);
// in "node" mode it mirrors what the shipped WasmFileReader does (path.dirname of Node, POSIX).
// ---------------------------------------------------------------------------------------------
struct MemReader {
    vfs: Map<String, Value>,
    reads: RefCell<Vec<String>>,
    node_parent: bool,
}

fn node_dirname(p: &str) -> String {
    // POSIX path.dirname of Node.js
    if p.is_empty() {
        return ".".to_string();
    }
    let bytes = p.as_bytes();
    let has_root = bytes[0] == b'/';
    let mut end: isize = -1;
    let mut matched_slash = true;
    let mut i = bytes.len() as isize - 1;
    while i >= 1 {
        if bytes[i as usize] == b'/' {
            if !matched_slash {
                end = i;
                break;
            }
        } else {
            matched_slash = false;
        }
        i -= 1;
    }
    if end == -1 {
        return if has_root { "/".to_string() } else { ".".to_string() };
    }
    if has_root && end == 1 {
        return "//".to_string();
    }
    p[..end as usize].to_string()
}

impl FileReader<Cursor<Vec<u8>>> for MemReader {
    fn read(&self, path: &Path) -> io::Result<Cursor<Vec<u8>>> {
        let key = path.to_string_lossy().to_string();
        self.reads.borrow_mut().push(key.clone());
        // "*" answers for any path that has no entry of its own
        match self.vfs.get(&key).or_else(|| self.vfs.get("*")) {
            None => Err(io::Error::new(io::ErrorKind::NotFound, "not found")),
            Some(entry) => {
                let kind = entry.get("kind").and_then(|k| k.as_str()).unwrap_or("text");
                match kind {
                    "text" => Ok(Cursor::new(
                        entry
                            .get("text")
                            .and_then(|t| t.as_str())
                            .unwrap_or("")
                            .as_bytes()
                            .to_vec(),
                    )),
                    "b64" => Ok(Cursor::new(
                        STANDARD
                            .decode(entry.get("b64").and_then(|t| t.as_str()).unwrap_or(""))
                            .unwrap_or_default(),
                    )),
                    "repeat" => {
                        // {kind:"repeat", unit:"...", times:N, prefix:"", suffix:""} — big inputs without big requests
                        let unit = entry.get("unit").and_then(|t| t.as_str()).unwrap_or("");
                        let times = entry.get("times").and_then(|t| t.as_u64()).unwrap_or(0) as usize;
                        let mut s = String::with_capacity(unit.len() * times + 64);
                        s.push_str(entry.get("prefix").and_then(|t| t.as_str()).unwrap_or(""));
                        for _ in 0..times {
                            s.push_str(unit);
                        }
                        s.push_str(entry.get("suffix").and_then(|t| t.as_str()).unwrap_or(""));
                        Ok(Cursor::new(s.into_bytes()))
                    }
                    "notfound" => Err(io::Error::new(io::ErrorKind::NotFound, "not found")),
                    "denied" => Err(io::Error::new(io::ErrorKind::PermissionDenied, "denied")),
                    "isdir" => Err(io::Error::new(io::ErrorKind::Other, "is a directory")),
                    "invalid" => Err(io::Error::new(io::ErrorKind::InvalidData, "invalid data")),
                    _ => Err(io::Error::new(io::ErrorKind::Other, "other")),
                }
            }
        }
    }

    fn parent(&self, path: &Path) -> Option<PathBuf> {
        if self.node_parent {
            path.to_str().map(|p| PathBuf::from(node_dirname(p)))
        } else {
            path.parent().map(PathBuf::from)
        }
    }
}

// ---------------------------------------------------------------------------------------------
thread_local! {
    static LAST_PANIC: RefCell<Option<String>> = RefCell::new(None);
}

fn install_panic_hook() {
    panic::set_hook(Box::new(|info| {
        let loc = info
            .location()
            .map(|l| format!("{}:{}", l.file(), l.line()))
            .unwrap_or_default();
        let msg = if let Some(s) = info.payload().downcast_ref::<&str>() {
            s.to_string()
        } else if let Some(s) = info.payload().downcast_ref::<String>() {
            s.clone()
        } else {
            "<non-string panic>".to_string()
        };
        LAST_PANIC.with(|p| *p.borrow_mut() = Some(format!("{msg} @ {loc}")));
    }));
}

fn config_from_json(v: &Value) -> (Config, bool) {
    // mirrors Rewriter::new: deserialisation failure => RewriterConfig::default()
    match serde_json::from_value::<RewriterConfig>(v.clone()) {
        Ok(rc) => (verif_hooks::to_config(&rc), true),
        Err(_) => (verif_hooks::to_config(&verif_hooks::default_config()), false),
    }
}

fn dump_config(c: &Config) -> Value {
    let methods: Vec<Value> = c
        .csi_methods
        .methods
        .iter()
        .map(|m| json!({"src": m.src, "dst": m.dst, "operator": m.operator, "allowedWithoutCallee": m.allowed_without_callee}))
        .collect();
    // the prologue exactly as the rewriter would insert it, printed by swc
    let prefix_src = print_stmts(&c.file_prefix_code);
    json!({
        "chainSourceMap": c.chain_source_map,
        "comments": c.print_comments,
        "localVarPrefix": c.local_var_prefix,
        "verbosity": format!("{:?}", c.verbosity),
        "literals": c.literals,
        "methods": methods,
        "plusOperator": c.csi_methods.plus_operator.as_ref().map(|m| m.dst.clone()),
        "tplOperator": c.csi_methods.tpl_operator.as_ref().map(|m| m.dst.clone()),
        "literalCallers": c.csi_methods.method_with_literal_callers,
        "dstMethods": verif_hooks::csi_dst_methods(c),
        "prefixStmts": c.file_prefix_code.len(),
        "prefixCode": prefix_src,
    })
}

fn print_stmts(stmts: &[swc_ecma_ast::Stmt]) -> Option<String> {
    use swc::{config::SourceMapsConfig, Compiler, PrintArgs};
    use swc_common::{FilePathMapping, DUMMY_SP};
    let compiler = Compiler::new(Arc::new(swc_common::SourceMap::new(FilePathMapping::empty())));
    let script = swc_ecma_ast::Program::Script(swc_ecma_ast::Script {
        span: DUMMY_SP,
        body: stmts.to_vec(),
        shebang: None,
    });
    let res = swc_common::GLOBALS.set(&Default::default(), || {
        compiler.print(
            &script,
            PrintArgs {
                source_map: SourceMapsConfig::Bool(false),
                ..Default::default()
            },
        )
    });
    res.ok().map(|o| o.code)
}

fn program_kind(p: &swc_ecma_ast::Program) -> &'static str {
    match p {
        swc_ecma_ast::Program::Module(_) => "module",
        swc_ecma_ast::Program::Script(_) => "script",
    }
}

fn parse_to_value(code: &str, file: &str, want_ast: bool) -> Value {
    let r = panic::catch_unwind(AssertUnwindSafe(|| {
        crate::rewriter::verif_parse_js(code.to_string(), file)
    }));
    match r {
        Ok(Ok(program)) => {
            let mut o = json!({"ok": true, "kind": program_kind(&program)});
            if want_ast {
                o["ast"] = serde_json::to_value(&program).unwrap_or(Value::Null);
            }
            o
        }
        Ok(Err(e)) => json!({"ok": false, "error": format!("{e}")}),
        Err(_) => {
            let msg = LAST_PANIC.with(|p| p.borrow_mut().take());
            json!({"ok": false, "panic": msg})
        }
    }
}

struct State {
    rewriters: HashMap<String, Config>,
}

fn handle(req: &Value, st: &mut State) -> Value {
    let id = req.get("id").cloned().unwrap_or(Value::Null);
    let op = req.get("op").and_then(|o| o.as_str()).unwrap_or("rewrite");
    let mut out = Map::new();
    out.insert("id".into(), id);

    if op == "defaults" {
        let rc = verif_hooks::default_config();
        out.insert("configDump".into(), dump_config(&verif_hooks::to_config(&rc)));
        return Value::Object(out);
    }
    if op == "parse" {
        let code = req.get("code").and_then(|c| c.as_str()).unwrap_or("");
        let file = req.get("file").and_then(|c| c.as_str()).unwrap_or("");
        let want_ast = req.get("ast").and_then(|c| c.as_bool()).unwrap_or(true);
        out.insert("parse".into(), parse_to_value(code, file, want_ast));
        return Value::Object(out);
    }
    if op == "logger" {
        // what Rewriter.setLogger does to the process: install the crate's TracerLogger once (with a sink
        // instead of the JS callback, which only exists under wasm) and set the process-wide maximum level
        let level = req.get("level").and_then(|c| c.as_str()).unwrap_or("ERROR");
        static LOGGER_INSTALLED: std::sync::atomic::AtomicBool = std::sync::atomic::AtomicBool::new(false);
        if !LOGGER_INSTALLED.swap(true, std::sync::atomic::Ordering::SeqCst) {
            fn sink(_level: &str, _msg: String) {}
            let _ = log::set_boxed_logger(Box::new(crate::tracer_logger::TracerLogger::new(&sink)));
        }
        use std::str::FromStr;
        log::set_max_level(log::LevelFilter::from_str(level).unwrap_or(log::max_level()));
        out.insert("status".into(), Value::String("ok".into()));
        out.insert("maxLevel".into(), Value::String(log::max_level().to_string()));
        return Value::Object(out);
    }
    if op == "config" {
        let cfg_json = req.get("config").cloned().unwrap_or(Value::Null);
        let (cfg, deser_ok) = config_from_json(&cfg_json);
        out.insert("configDump".into(), dump_config(&cfg));
        out.insert("deserOk".into(), Value::Bool(deser_ok));
        return Value::Object(out);
    }

    // op == rewrite
    let code = req.get("code").and_then(|c| c.as_str()).unwrap_or("").to_string();
    let file = req.get("file").and_then(|c| c.as_str()).unwrap_or("").to_string();
    let cfg_json = req.get("config").cloned().unwrap_or(Value::Null);
    let wants: Vec<String> = req
        .get("want")
        .and_then(|w| w.as_array())
        .map(|a| a.iter().filter_map(|x| x.as_str().map(String::from)).collect())
        .unwrap_or_default();
    let want = |k: &str| wants.iter().any(|w| w == k);

    let rewriter_id = req.get("rewriter").and_then(|r| r.as_str()).map(String::from);
    let fresh_cfg;
    let cfg: &Config = match &rewriter_id {
        Some(rid) => {
            if !st.rewriters.contains_key(rid) {
                let (c, _) = config_from_json(&cfg_json);
                st.rewriters.insert(rid.clone(), c);
            }
            st.rewriters.get(rid).unwrap()
        }
        None => {
            fresh_cfg = config_from_json(&cfg_json).0;
            &fresh_cfg
        }
    };

    let reader = MemReader {
        vfs: req
            .get("vfs")
            .and_then(|v| v.as_object())
            .cloned()
            .unwrap_or_default(),
        reads: RefCell::new(Vec::new()),
        node_parent: req.get("parentMode").and_then(|p| p.as_str()) == Some("node"),
    };

    let t0 = Instant::now();
    let result = panic::catch_unwind(AssertUnwindSafe(|| {
        verif_hooks::rewrite(cfg, code.clone(), file.clone(), &reader)
    }));
    out.insert("micros".into(), json!(t0.elapsed().as_micros() as u64));
    out.insert("reads".into(), json!(reader.reads.borrow().clone()));
    out.insert("prefix".into(), json!(cfg.local_var_prefix));

    match result {
        Err(_) => {
            let msg = LAST_PANIC.with(|p| p.borrow_mut().take());
            out.insert("status".into(), json!("panic"));
            out.insert("error".into(), json!(msg));
        }
        Ok(Err(msg)) => {
            out.insert("status".into(), json!("err"));
            out.insert("error".into(), json!(msg));
        }
        Ok(Ok(res)) => {
            out.insert("status".into(), json!("ok"));
            let v = serde_json::to_value(&res).unwrap_or(Value::Null);
            if let Value::Object(m) = v {
                for (k, val) in m {
                    out.insert(k, val);
                }
            }
            if want("astOut") || want("reparse") {
                let content = res.content.clone();
                if !content.is_empty() {
                    out.insert("reparse".into(), parse_to_value(&content, &file, want("astOut")));
                }
            }
        }
    }
    if want("astIn") || want("parseIn") {
        out.insert("parseIn".into(), parse_to_value(&code, &file, want("astIn")));
    }
    if want("config") {
        out.insert("configDump".into(), dump_config(cfg));
    }
    Value::Object(out)
}

fn main() {
    let args: Vec<String> = std::env::args().collect();
    if args.len() > 1 && args[1] == "--repo" {
        println!("{}", env!("VERIF_REPO_BUILT"));
        return;
    }
    install_panic_hook();
    // watchdog: if one request takes longer than the limit, report it and abort the process; the
    // Node side attributes the abort to that request and restarts the service for the rest.
    let limit_ms: u64 = std::env::var("IASTMC_TIMEOUT_MS")
        .ok()
        .and_then(|s| s.parse().ok())
        .unwrap_or(20_000);
    let started = Arc::new(AtomicU64::new(0)); // ms since epoch0 of current request start, 0 = idle
    let current: Arc<Mutex<Value>> = Arc::new(Mutex::new(Value::Null));
    let epoch0 = Instant::now();
    {
        let started = started.clone();
        let current = current.clone();
        std::thread::spawn(move || loop {
            std::thread::sleep(Duration::from_millis(200));
            let s = started.load(Ordering::SeqCst);
            if s != 0 {
                let now = epoch0.elapsed().as_millis() as u64;
                if now.saturating_sub(s) > limit_ms {
                    let id = current.lock().map(|g| g.clone()).unwrap_or(Value::Null);
                    let line = json!({"id": id, "status": "timeout", "limitMs": limit_ms});
                    let so = io::stdout();
                    let mut l = so.lock();
                    let _ = writeln!(l, "{}", line);
                    let _ = l.flush();
                    std::process::exit(3);
                }
            }
        });
    }

    let stdin = io::stdin();
    let mut st = State {
        rewriters: HashMap::new(),
    };
    let stdout = io::stdout();
    // run the request loop on a big-stack thread (real-world files nest deeply)
    let child = std::thread::Builder::new()
        .stack_size(256 * 1024 * 1024)
        .spawn(move || {
            for line in stdin.lock().lines() {
                let line = match line {
                    Ok(l) => l,
                    Err(_) => break,
                };
                if line.trim().is_empty() {
                    continue;
                }
                let req: Value = match serde_json::from_str(&line) {
                    Ok(v) => v,
                    Err(e) => {
                        let mut l = stdout.lock();
                        let _ = writeln!(l, "{}", json!({"status":"badrequest","error":format!("{e}")}));
                        continue;
                    }
                };
                if let Ok(mut g) = current.lock() {
                    *g = req.get("id").cloned().unwrap_or(Value::Null);
                }
                started.store(epoch0.elapsed().as_millis() as u64 + 1, Ordering::SeqCst);
                let resp = handle(&req, &mut st);
                started.store(0, Ordering::SeqCst);
                let mut l = stdout.lock();
                let _ = writeln!(l, "{}", resp);
                let _ = l.flush();
            }
        })
        .unwrap();
    let _ = child.join();
}
